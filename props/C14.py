"""C14 - the delegating-metadata checker enforces exactly the documented schema."""
import copy
import os

from hypothesis import strategies as st

from conda_content_trust import authentication as A, common as C

from vlib import fuzz as FZ, gen_envelope as GE, gen_json as G, gen_metadata as GM, gen_mutate as MU, gen_pyvalues as GP, keys, \
    ref_schema, ref_verify as RV
from vlib import cfgunit as _cfgunit, interfere as _interfere, interrupt as _interrupt
from vlib.runner import REPO, Unit, Violation

PROPERTY = "C14"
LEVEL = "exploration"
RULE = ("(a) constructive valid documents (all optional-field combinations, 0-4 roles incl. odd role names, 0-5 signature "
        "entries of both shapes under any map keys, extra fields in signed) must be accepted; (b) one or two mutations "
        "from the mutation engine at any JSON path (deletion, replacement by 34 kinds of value, boundary edits of "
        "strings / times / integers, list duplication, dict extra fields) - checker verdict == independent three-valued "
        "schema (gray zones of DESIGN.md section 6 not asserted); (c) the COMPLETE single-mutation neighbourhood of the "
        "shipped fixtures and of two synthetic documents; (d) free-form JSON and Python values; (e) everything the "
        "checker accepts is fed to verify_root (both positions) and verify_delegation (both positions, each role "
        "present plus one absent): only documented error families may come out. Non-trivial = mutated / free-form "
        "case with a definite verdict; distinct = SHA-256 of the case. Evidence lists the (schema rule x mutation kind) "
        "matrix that was hit.")
ASSUMPTIONS = ["gray zones (integral float / True as integer, strptime-lenient time spellings, empty other_headers) are "
               "counted, not asserted"]

FAMILY = (C.CCT_Error, TypeError, ValueError)


def verdict(doc):
    try:
        C.checkformat_delegating_metadata(doc)
        return "accept", None
    except (TypeError, ValueError) as e:
        return "reject", e
    except Exception as e:
        raise Violation("checkformat_delegating_metadata raised %s: %s" % (type(e).__name__, str(e)[:100]),
                        bucket="checker raises " + type(e).__name__)


def compare(doc, what):
    want, reasons = ref_schema.schema(doc)
    got, exc = verdict(doc)
    if want == "yes" and got != "accept":
        raise Violation("checker rejects a document the schema allows (%s): %s %s" % (what, type(exc).__name__, str(exc)[:120]),
                        bucket="rejects valid")
    if want == "no" and got != "reject":
        raise Violation("checker accepts a document outside the schema (%s); violated: %s" % (what, reasons[:3]),
                        bucket="accepts invalid: " + (reasons[0][0] if reasons else "?"))
    return want, reasons, got


# ---- valid documents ---------------------------------------------------------------------------------------

@st.composite
def valid_docs(draw):
    seeds = draw(keys.seed_lists(1, 4))
    pubs = [keys.pub_hex(s) for s in seeds]
    signed = draw(GM.signed_parts(pubs))
    doc = GM.wrap(signed)
    for _ in range(draw(st.integers(0, 5))):
        k = draw(st.one_of(st.sampled_from(pubs), keys.ghost_keys, G.strings))
        doc["signatures"][k] = draw(st.sampled_from([
            {"signature": "ab" * 64}, {"other_headers": "04001608", "signature": "cd" * 64},
            {"other_headers": "04", "signature": "cd" * 64, "see_also": "ef" * 20}]))
    if draw(st.booleans()):
        GM.sign_envelope(doc, seeds[:1], draw(st.booleans()))
    return doc


def check_valid(case):
    want, reasons, got = compare(case["doc"], "constructed valid document")
    if want != "yes":
        raise Violation("harness: constructed document is not schema-valid: %r" % (reasons,), bucket="harness")
    s = case["doc"]["signed"]
    labs = ["type=" + s["type"], "roles=%d" % len(s["delegations"]), "sigs=%d" % min(3, len(case["doc"]["signatures"])),
            "version" if "version" in s else "no-version", "timestamp" if "timestamp" in s else "no-timestamp"]
    return {"nontrivial": len(s["delegations"]) > 0 or len(case["doc"]["signatures"]) > 0, "labels": labs}


# ---- mutations ------------------------------------------------------------------------------------------------

@st.composite
def _mutated(draw):
    doc = draw(valid_docs())
    n = draw(st.sampled_from([1, 1, 1, 2]))
    muts = []
    cur = doc
    for _ in range(n):
        ps = list(G.paths(cur))
        path = list(ps[draw(st.integers(0, 10 ** 6)) % len(ps)])
        op = MU.OPS[draw(st.integers(0, 10 ** 6)) % len(MU.OPS)]
        own = MU.own_ops(G.get_path(cur, path))
        if own and draw(st.integers(0, 2)) == 0:
            op = own[draw(st.integers(0, 10 ** 6)) % len(own)]      # one time in three: an edit of the node's own kind
        m = {"path": path, "op": op}
        r = MU.apply(cur, m)
        if r is MU.INAPPLICABLE:   # op does not apply at this node: fall back to a replacement (always applies)
            m = {"path": path, "op": "replace:%d" % draw(st.integers(0, len(MU.REPLACEMENTS) - 1))}
            r = MU.apply(cur, m)
        muts.append(m)
        cur = r
    return {"doc": doc, "muts": muts}


ROLEISH = ("pkg_mgr", "channeler", "repodata_verify", "root.json", "Root", "timestamp", "snapshot", "targets")


@st.composite
def _leaf_mutated(draw):
    """one boundary edit of one leaf that has a grammar of its own (a key in a delegation, a signature / header / fingerprint
    string, a time string, a version / threshold): the near-misses of the leaf grammars, inside otherwise valid metadata"""
    doc = draw(valid_docs().filter(lambda d: any(d["signed"]["delegations"].get(r, {}).get("pubkeys") for r in d["signed"]["delegations"])
                                   or d["signatures"]))
    leaves = [p for p in G.paths(doc) if p and type(G.get_path(doc, p)) in (str, int) and p[-1] != "metadata_spec_version"]
    for _ in range(8):
        path = list(leaves[draw(st.integers(0, 10 ** 6)) % len(leaves)])
        if draw(st.integers(0, 9)) == 0:
            path = ["signed", "type"]
        node = G.get_path(doc, path)
        if path == ["signed", "type"] and draw(st.integers(0, 3)) > 0:
            # names of roles / metadata types that exist around the library but are no supported delegating-metadata type
            names = [i for i, r in enumerate(MU.REPLACEMENTS) if type(r) is str and r in ROLEISH]
            return {"doc": doc, "muts": [{"path": path, "op": "replace:%d" % names[draw(st.integers(0, 10 ** 6)) % len(names)]}]}
        op = ("int:" if type(node) is int else "time:" if (path[-1] in ("expiration", "timestamp") and draw(st.booleans())) else "str:")
        edits = MU.INT_EDITS if op == "int:" else MU.TIME_EDITS if op == "time:" else MU.STR_EDITS
        m = {"path": path, "op": op + edits[draw(st.integers(0, 10 ** 6)) % len(edits)]}
        if MU.apply(doc, m) is not MU.INAPPLICABLE:
            return {"doc": doc, "muts": [m]}
    return {"doc": doc, "muts": [{"path": list(leaves[0]), "op": "replace:0"}]}


def _mutate(doc, muts):
    cur = doc
    for m in muts:
        r = MU.apply(cur, m)
        if r is MU.INAPPLICABLE:
            return MU.INAPPLICABLE
        cur = r
    return cur


def check_mutated(case):
    doc = _mutate(case["doc"], case["muts"])
    if doc is MU.INAPPLICABLE:
        return {"nontrivial": False, "labels": ["inapplicable"]}
    compare(case["doc"], "unmutated document")           # the valid document first, then its mutant (same process)
    want, reasons, got = compare(doc, "mutation %s (checked right after the unmutated document)" % (case["muts"],))
    labs = ["schema=" + want] + ["%s/%s" % (r[0], MU.op_kind(case["muts"][-1]["op"])) for r in reasons[:2]]
    return {"nontrivial": want != "gray", "labels": labs, "gray": want == "gray"}


# ---- complete neighbourhoods -------------------------------------------------------------------------------------

def _bases():
    out = []
    for f in ("tests/testdata/1.root.json", "tests/testdata/2.root.json", "tests/testdata/key_mgr.json"):
        out.append((f, C.load_metadata_from_file(os.path.join(REPO, f))))
    pubs = [keys.pub_hex(s) for s in keys.POOL[:3]]
    out.append(("synthetic-key_mgr-no-version", GM.wrap(GM.signed_part(
        "key_mgr", {"pkg_mgr": {"pubkeys": pubs[:2], "threshold": 2}, "": {"pubkeys": [], "threshold": 1}},
        version=None, timestamp="2024-02-29T23:59:59Z"), {pubs[0]: {"signature": "ab" * 64}})))
    out.append(("synthetic-root-no-timestamp", GM.wrap(GM.signed_part(
        "root", {"root": {"pubkeys": pubs, "threshold": 2}, "key_mgr": {"pubkeys": pubs[:1], "threshold": 1}},
        version=7, timestamp=None, extra={"note": ["x"]}),
        {pubs[1]: {"other_headers": "04001608", "signature": "cd" * 64, "see_also": "ef" * 20}})))
    return out


def enum_neighbourhood(tier):
    for name, doc in _bases():
        for path in G.paths(doc):
            yield {"base": name, "path": list(path)}


_BASES = None


def check_neighbourhood(case):
    global _BASES
    if _BASES is None:
        _BASES = dict(_bases())
    doc = _BASES[case["base"]]
    n = 0
    labs = set()
    for op in MU.OPS:
        m = {"path": case["path"], "op": op}
        r = MU.apply(doc, m)
        if r is MU.INAPPLICABLE:
            continue
        want, reasons, got = compare(r, "%s mutated by %s" % (case["base"], m))
        n += 1
        for rule, v in reasons[:2]:
            labs.add("%s/%s" % (rule, MU.op_kind(op)))
        labs.add("schema=" + want)
    return {"nontrivial": True, "labels": sorted(labs), "count": {"mutations": n}}


# ---- free-form ----------------------------------------------------------------------------------------------------------

def check_freeform(case):
    v = GP.realize(case["v"])
    if isinstance(v, dict) and type(v) is not dict:
        return {"nontrivial": False, "labels": ["dict-subclass"]}
    want, reasons, got = compare(v, "free-form value")
    return {"nontrivial": True, "labels": ["schema=" + want, type(v).__name__]}


# ---- accepted documents never make the verifiers fail internally -----------------------------------------------------------

@st.composite
def _accepted(draw):
    c = draw(_mutated())
    other = draw(valid_docs())
    return {"doc": c["doc"], "muts": c["muts"], "other": other}


def _family(f, *a, **kw):
    try:
        f(*a, **kw)
        return "accept"
    except FAMILY as e:
        return type(e).__name__
    except Exception as e:
        raise Violation("%s raised %s (%s) on an argument that checkformat_delegating_metadata accepts"
                        % (f.__name__, type(e).__name__, str(e)[:100]), bucket="verifier internal error " + type(e).__name__)


def check_accepted(case):
    doc = _mutate(case["doc"], case["muts"])
    if doc is MU.INAPPLICABLE or not isinstance(doc, dict):
        doc = case["doc"]
    got, _ = verdict(doc)
    if got != "accept":
        doc = case["doc"]       # the unmutated document is accepted by construction
    other = case["other"]
    n = 0
    for T, N in ((doc, other), (other, doc), (doc, doc)):
        _family(A.verify_root, copy.deepcopy(T), copy.deepcopy(N))
        n += 1
    # the accepted document as trusted root of its own successor (same content, next version: the version rule passes and the
    # signature entries it carries are really examined), and as authority over an envelope that carries the same entries
    succ = copy.deepcopy(doc)
    if type(succ["signed"].get("version")) is int:
        succ["signed"]["version"] += 1
        _family(A.verify_root, copy.deepcopy(doc), succ)
        n += 1
    for role in list(doc["signed"]["delegations"])[:4]:
        for gpg in (False, True):
            env = {"signatures": copy.deepcopy(doc["signatures"]), "signed": {"name": "pkg", "version": "1.0"}}
            _family(A.verify_delegation, role, env, copy.deepcopy(doc), gpg=gpg)
            n += 1
    roles = list(doc["signed"]["delegations"]) + list(other["signed"]["delegations"]) + ["no such role", doc["signed"]["type"]]
    for role in roles:
        for gpg in (False, True):
            _family(A.verify_delegation, role, copy.deepcopy(other), copy.deepcopy(doc), gpg=gpg)
            _family(A.verify_delegation, role, copy.deepcopy(doc), copy.deepcopy(other), gpg=gpg)
            n += 2
    return {"nontrivial": doc is not case["doc"], "labels": ["mutated-accepted" if doc is not case["doc"] else "valid"],
            "count": {"verifier_calls": n}}


def check_fuzz(case):
    return FZ.run_campaign("fuzz_schema", case, PROPERTY)


def _no_crowd(case):
    """keep the 1000+-key roles out of the quadratic interruption sweeps (they are in every other unit)"""
    d = case["doc"]["signed"].get("delegations", {})
    return all(len(v.get("pubkeys", ())) < 50 for v in d.values() if isinstance(v, dict))


UNITS = [
    Unit("fuzz", check_fuzz, enumerate=lambda tier: FZ.campaigns(tier, "C14"), shards_quick=4, shards_thorough=16,
         doc="atheris (libFuzzer) campaign: bytes -> JSON / mutation programs / spliced fixtures; checker == schema in-target"),
    Unit("valid", check_valid, strategy=lambda: st.builds(lambda d: {"doc": d}, valid_docs()), quick=600, thorough=20000,
         essential=["type=root", "type=key_mgr", "no-version", "no-timestamp"], doc="constructed valid documents are accepted"),
    Unit("mutated", check_mutated, strategy=_mutated, quick=3000, thorough=120000,
         essential=["schema=no", "schema=yes"], doc="1-2 mutations at any JSON path: checker == schema"),
    Unit("neighbourhood", check_neighbourhood, enumerate=enum_neighbourhood, exhaustive=True, shards_quick=8,
         doc="complete single-mutation neighbourhood (every path x every applicable op) of 5 base documents"),
    Unit("freeform", check_freeform, strategy=lambda: st.builds(lambda v: {"v": v}, st.one_of(
        GP.python_values, G.json_values(10), st.fixed_dictionaries({"signatures": G.json_values(4), "signed": G.json_values(8)}))),
        quick=1500, thorough=60000, doc="free-form JSON / Python values"),
    Unit("accepted", check_accepted, strategy=_accepted, quick=400, thorough=15000,
         doc="whatever the checker accepts never makes verify_root / verify_delegation fail outside the documented families"),
    _cfgunit.unit_under_config(PROPERTY, 'mutated', exclude=(), closed_stdout=True, n_cases=40),
    _cfgunit.unit_under_config(PROPERTY, 'accepted', exclude=(), n_cases=4),
    Unit("leaf_mutated", check_mutated, strategy=_leaf_mutated, quick=1500, thorough=40000, essential=["schema=no"],
         doc="one boundary edit of one leaf with a grammar of its own (key, signature, header, fingerprint, time, version, threshold) in valid metadata"),
    _interrupt.unit_interrupted(PROPERTY, 'mutated', quick=24, thorough=600, max_points=120, filter_case=_no_crowd),
    _interrupt.unit_interrupted(PROPERTY, 'leaf_mutated', quick=60, thorough=1500, max_points=1000, shards_quick=12, filter_case=_no_crowd),
    _interfere.unit_after(PROPERTY, 'leaf_mutated', quick=800, thorough=20000),
    _cfgunit.unit_under_clocks(PROPERTY, 'valid'),
]
