"""C15 - leaf format validators decide exact grammars; one spelling per key."""
import itertools

from hypothesis import strategies as st

from conda_content_trust import common as C

from vlib import gen_envelope as GE, gen_json as G, gen_pyvalues as GP, keys, ref_grammar as g
from vlib import fuzz as FZ
from vlib import cfgunit as _cfgunit, interrupt as _interrupt
from vlib.runner import Unit, Violation
from vlib import interfere as _interfere, interrupt as _interrupt

PROPERTY = "C15"
LEVEL = "exploration"
RULE = ("Strings = valid core (40/64/128 lower-case hex, or even-length hex) + edit (lengths 0,1,2,n-2..n+2,2n; upper / "
        "mixed case; one char from a special alphabet of 55 characters: ASCII whitespace, NBSP, EM SPACE, ZWSP, BOM, x, g, "
        "-, _, +, NUL, DEL, full-width digits and letters, Arabic-Indic / Devanagari digits, superscript and Roman "
        "numerals, combining mark, lone surrogates, non-BMP digit); all non-string Python values; dicts over the power "
        "set of {signature, other_headers, see_also, extra} with valid/invalid members as signature entries. Oracles: "
        "accept <=> regex grammar (vlib/ref_grammar.py); predicate form == (raising form does not raise) for the six "
        "pairs; predicates never raise; rejections are TypeError/ValueError; accepted distinct key strings have distinct "
        "bytes; accepted key lists / delegations have pairwise distinct key bytes. Exhaustive unit: every position x "
        "every special character x {substitute, insert, append, prepend} on a valid key, signature and fingerprint. "
        "Non-trivial = the input is within one edit of the validator's own grammar boundary (or a non-string for a "
        "predicate/raiser agreement check).")
ASSUMPTIONS = ["objects with hostile dunder methods are out of scope"]

SPECIAL = (" \t\n\r\x0b\x0c\x00\x7f\x1c\x85\xa0  \u200b\ufeffxXgGzZ-_+.:,/\\#'\"\uff10\uff19\uff41\uff46\uff21\u0660\u0669\u0966\u096f\u00b2\u00b3\u00b9\u2167\u2160"
           "\u0301\U0001d7ce\U0001d7d7\U000103ff\u00c0\u00df\u0130\u2080\u00bd")
VALID_KEY = keys.pub_hex(keys.POOL[1])
VALID_SIG = keys.sign_raw(keys.POOL[1], b"x").hex()
VALID_FPR = "f075dd2f6f4cb3bd76134bbb81b6ca16ef9cd589"
HEX = "0123456789abcdef"

VALIDATORS = {
    # name: (predicate, raiser, oracle)
    "hex_string": (C.is_hex_string, C.checkformat_hex_string, g.is_hex),
    "hex_key": (C.is_hex_key, C.checkformat_hex_key, g.is_key),
    "hex_signature": (C.is_hex_signature, None, g.is_sig),
    "gpg_fingerprint": (C.is_gpg_fingerprint, C.checkformat_gpg_fingerprint, g.is_fingerprint),
}
ENTRY_VALIDATORS = {
    "gpg_signature": (C.is_gpg_signature, C.checkformat_gpg_signature, g.is_gpg_entry),
    "signature": (C.is_signature, C.checkformat_signature, g.is_any_entry),
    "any_signature": (None, C.checkformat_any_signature, g.is_any_entry),
}


def _apply(name, pred, raiser, oracle, v, shown=None):
    """Run predicate and raiser on v and compare with the oracle (True/False)."""
    want = oracle(v)
    shown = repr(v)[:90] if shown is None else shown
    if pred is not None:
        try:
            p = pred(v)
        except Exception as e:
            raise Violation("is_%s(%s) raised %s instead of returning a boolean" % (name, shown, type(e).__name__),
                            bucket="predicate raises is_" + name)
        if p is not want:
            raise Violation("is_%s(%s) returned %r, grammar says %r" % (name, shown, p, want),
                            bucket=("accepts outside grammar " if want is False else "rejects inside grammar ") + name)
    if raiser is not None:
        try:
            r = raiser(v)
            ok = True
        except (TypeError, ValueError):
            ok = False
        except Exception as e:
            raise Violation("checkformat_%s(%s) raised %s (not TypeError/ValueError)" % (name, shown, type(e).__name__),
                            bucket="raiser wrong error checkformat_" + name)
        if ok is not want:
            raise Violation("checkformat_%s(%s) %s, grammar says %s" % (name, shown, "returned" if ok else "raised",
                                                                        "valid" if want else "invalid"),
                            bucket=("accepts outside grammar " if want is False else "rejects inside grammar ") + name)
        if ok and r is not v:
            raise Violation("checkformat_%s does not return its argument" % name, bucket="raiser return value")
    return want


# ---- unit 1: strings around the boundaries --------------------------------------------------------------------

LENGTHS = {40: [0, 1, 2, 38, 39, 40, 41, 42, 80], 64: [0, 1, 2, 62, 63, 64, 65, 66, 128], 128: [126, 127, 128, 129, 130, 256, 64]}


@st.composite
def _strings(draw):
    n = draw(st.sampled_from([40, 64, 128]))
    core = draw(st.text(HEX, min_size=n, max_size=n))
    kind = draw(st.sampled_from(["exact", "length", "upper", "mixed", "sub", "sub2", "ins", "app", "pre", "free", "nonhex-len"]))
    s = core
    if kind == "length":
        m = draw(st.sampled_from(LENGTHS[n]))
        s = (core * 3)[:m]
    elif kind == "upper":
        s = core.upper()
    elif kind == "mixed":
        i = draw(st.integers(0, n - 1))
        s = core[:i] + core[i].upper() + core[i + 1:]
    elif kind in ("sub", "ins", "app", "pre"):
        ch = draw(st.sampled_from(SPECIAL))
        i = draw(st.integers(0, n - 1))
        s = {"sub": core[:i] + ch + core[i + 1:], "ins": core[:i] + ch + core[i:], "app": core + ch, "pre": ch + core}[kind]
    elif kind == "sub2":
        ch = draw(st.sampled_from(SPECIAL))
        i = 2 * draw(st.integers(0, n // 2 - 1))
        s = core[:i] + ch + draw(st.sampled_from([ch, " ", "\t"])) + core[i + 2:]
    elif kind == "free":
        s = draw(G.strings)
    elif kind == "nonhex-len":
        s = draw(st.text(st.sampled_from(SPECIAL + "ghGH"), min_size=n, max_size=n))
    return {"s": s, "kind": kind, "n": n}


def check_strings(case):
    s = case["s"]
    accepted = []
    for name, (pred, raiser, oracle) in VALIDATORS.items():
        if _apply(name, pred, raiser, oracle, s):
            accepted.append(name)
    near = case["kind"] != "free"
    return {"nontrivial": near, "labels": ["kind=" + case["kind"], "accepted=%d" % len(accepted)]}


# ---- unit 2: non-string values (and everything else) -----------------------------------------------------------

def check_pyvalues(case):
    v = GP.realize(case["v"])
    for name, (pred, raiser, oracle) in list(VALIDATORS.items()) + list(ENTRY_VALIDATORS.items()):
        vv = GP.realize(case["v"])
        orc = oracle
        if isinstance(vv, str) and type(vv) is not str or isinstance(vv, dict) and type(vv) is not dict:
            continue   # subclasses of str/dict: not asserted (unreachable from JSON)
        _apply(name, pred, raiser, orc, vv)
    # is_signable / checkformat_signable agreement
    try:
        p = C.is_signable(v)
    except Exception as e:
        raise Violation("is_signable(%r) raised %s" % (v, type(e).__name__), bucket="predicate raises is_signable")
    try:
        C.checkformat_signable(v)
        ok = True
    except (TypeError, ValueError):
        ok = False
    except Exception as e:
        raise Violation("checkformat_signable raised %s" % type(e).__name__, bucket="raiser wrong error checkformat_signable")
    if bool(p) is not ok:
        raise Violation("is_signable(%r)=%r disagrees with checkformat_signable" % (v, p), bucket="pair disagreement signable")
    return {"nontrivial": not isinstance(v, str), "labels": [type(v).__name__]}


# ---- unit 3: dicts as signature entries -----------------------------------------------------------------------------

SIG_VALUES = [VALID_SIG, VALID_SIG.upper(), VALID_SIG[:-1], VALID_SIG + "0", VALID_SIG[:-2], VALID_SIG + "00", " " + VALID_SIG[1:],
              VALID_SIG[:-1] + "\n", None, 5, bytes.fromhex(VALID_SIG), VALID_SIG[:64], "", VALID_SIG[:-1] + "g",
              VALID_SIG[:-1] + "\uff10", [VALID_SIG]]
HDR_VALUES = ["04", "04001608001d1621", "4", "04ff0", "04FF", "", " 04", "04 ", "zz", None, 4, b"\x04", "0x04", "04" * 300, ["04"], "0\uff14"]
SEE_VALUES = [VALID_FPR, VALID_FPR.upper(), VALID_FPR[:-1], VALID_FPR + "0", VALID_FPR + "00", None, 5, "", VALID_KEY, " " + VALID_FPR[1:],
              bytes.fromhex(VALID_FPR), VALID_FPR[:-1] + "\n", [VALID_FPR]]
EXTRA_KEYS = ["extra", "keyid", "Signature", "signature ", "other-headers", ""]


SHAPES = [["signature"], ["signature"], ["signature", "other_headers"], ["signature", "other_headers"],
          ["signature", "other_headers", "see_also"], ["signature", "extra"], ["signature", "other_headers", "extra"],
          ["signature", "see_also"], ["other_headers"], ["other_headers", "see_also"], [],
          ["signature", "other_headers", "see_also", "extra"]]


@st.composite
def _entries(draw):
    e = {}
    fields = SHAPES[draw(st.integers(0, len(SHAPES) - 1))]
    bad_field = (fields + [None, None])[draw(st.integers(0, len(fields) + 1))] if fields else None   # at most one bad member
    good = {"signature": st.text(HEX, min_size=128, max_size=128), "see_also": st.text(HEX, min_size=40, max_size=40),
            "other_headers": st.integers(1, 40).flatmap(lambda n: st.text(HEX, min_size=2 * n, max_size=2 * n))}
    for f in fields:
        pool = {"signature": SIG_VALUES, "other_headers": HDR_VALUES, "see_also": SEE_VALUES}.get(f)
        if f == "extra":
            e[draw(st.sampled_from(EXTRA_KEYS))] = draw(G.scalars)
        elif f == bad_field:
            e[f] = draw(st.sampled_from(pool[1:]))
        else:
            e[f] = draw(good[f])
    order = draw(st.permutations(list(e)))
    return {"entry": {k: e[k] for k in order}}


def check_entries(case):
    e = case["entry"]
    gray = type(e) is dict and e.get("other_headers") == "" and set(e) <= {"signature", "other_headers", "see_also"}
    res = {}
    for name, (pred, raiser, oracle) in ENTRY_VALIDATORS.items():
        if gray:
            # empty other_headers: the property does not say whether zero header bytes are a hex string; only
            # predicate/raiser agreement is asserted
            if pred is not None and raiser is not None:
                p = pred(e)
                try:
                    raiser(e)
                    ok = True
                except (TypeError, ValueError):
                    ok = False
                if bool(p) is not ok:
                    raise Violation("is_%s and checkformat_%s disagree on %r" % (name, name, e), bucket="pair disagreement " + name)
            continue
        res[name] = _apply(name, pred, raiser, oracle, e)
    shape = "raw" if g.is_raw_entry(e) else "gpg" if g.is_gpg_entry(e) else "invalid"
    return {"nontrivial": True, "labels": ["shape=" + shape, "fields=%d" % len(e)], "gray": gray}


# ---- unit 4: distinct spellings / distinct bytes ---------------------------------------------------------------------

def _variants(k):
    return [k, k.upper(), k[:5].upper() + k[5:], k + " ", " " + k, k + "\n", "0x" + k, k[:-1] + chr(0xFF10 + int(k[-1], 16) % 10),
            k[:32] + " " + k[32:], k + "\x00", "\ufeff" + k, k[:-1], k + "0"]


@st.composite
def _keylists(draw):
    ks = [keys.pub_hex(s) for s in draw(keys.seed_lists(1, 4))]
    items = []
    for k in ks:
        for _ in range(draw(st.integers(1, 2))):
            items.append(draw(st.sampled_from(_variants(k) + [k, k, k])))
    items = list(draw(st.permutations(items)))
    layout = draw(st.sampled_from(["as-drawn", "as-drawn", "dup-apart", "dup-adjacent", "dup-ends"]))
    if layout != "as-drawn":
        # exactly one key listed twice in its canonical spelling, the two occurrences next to each other / apart / first and last
        pool = list(dict.fromkeys(ks + [keys.pub_hex(keys.POOL[15]), keys.pub_hex(keys.POOL[14])]))[:max(3, len(ks))]
        k = pool[0]
        rest = pool[1:]
        items = {"dup-apart": [k, rest[0], k] + rest[1:], "dup-adjacent": rest[:1] + [k, k] + rest[1:], "dup-ends": [k] + rest + [k]}[layout]
    return {"keys": items, "threshold": draw(st.sampled_from([1, 2, 0, -1, 1.5, None, "1", 10 ** 30])), "layout": layout}


def check_keylists(case):
    lst = case["keys"]
    acc = [s for s in lst if C.is_hex_key(s)]
    for a, b in itertools.combinations(sorted(set(acc)), 2):
        if bytes.fromhex(a) == bytes.fromhex(b):
            raise Violation("two different accepted key strings %r and %r denote the same key bytes" % (a, b),
                            bucket="two spellings of one key")
    want_list = all(g.is_key(s) for s in lst) and len(set(lst)) == len(lst)
    for name, f, arg, want in (
            ("checkformat_list_of_hex_keys", C.checkformat_list_of_hex_keys, lst, want_list),
            ("checkformat_delegation", C.checkformat_delegation, {"pubkeys": lst, "threshold": case["threshold"]},
             want_list and g.natural_int(case["threshold"]) == "yes")):
        try:
            f(arg)
            ok = True
        except (TypeError, ValueError):
            ok = False
        except Exception as e:
            raise Violation("%s raised %s" % (name, type(e).__name__), bucket="raiser wrong error " + name)
        if ok:
            try:
                decoded = [bytes.fromhex(s) for s in lst]
            except Exception:
                raise Violation("%s accepted a list holding a non-hex item: %r" % (name, lst), bucket="list accepts non-key")
            if len(set(decoded)) != len(decoded):
                raise Violation("%s accepted a key list that contains the same key bytes twice: %r" % (name, lst),
                                bucket="duplicate key accepted")
        if ok is not want and not (name == "checkformat_delegation" and g.natural_int(case["threshold"]) == "gray"):
            raise Violation("%s %s %r; grammar says %s" % (name, "accepted" if ok else "rejected", arg,
                                                          "valid" if want else "invalid"), bucket=name + " differs from grammar")
    dup = len(set(lst)) != len(lst)
    return {"nontrivial": len(lst) >= 2, "labels": ["dup" if dup else "nodup", "variants" if acc != lst else "all-canonical"]}


# ---- unit 5: exhaustive boundary --------------------------------------------------------------------------------------

def enum_boundary(tier):
    for name, core in (("hex_key", VALID_KEY), ("hex_signature", VALID_SIG), ("gpg_fingerprint", VALID_FPR)):
        for ci in range(len(SPECIAL)):
            yield {"validator": name, "char": ci, "core": core}


def check_boundary(case):
    name, core, ch = case["validator"], case["core"], SPECIAL[case["char"]]
    n = 0
    for i in range(len(core) + 1):
        cands = [core[:i] + ch + core[i:]]
        if i < len(core):
            cands.append(core[:i] + ch + core[i + 1:])
            cands.append(core[:i] + ch + core[i + 2:] if i + 1 < len(core) else core[:i] + ch)
            cands.append((core[:i] + ch + ch + core[i + 2:])[:len(core)])   # a whole byte pair replaced
        for s in cands:
            for vname, (pred, raiser, oracle) in VALIDATORS.items():
                _apply(vname, pred, raiser, oracle, s)
                n += 1
    return {"nontrivial": True, "labels": [name], "count": {"strings_x_validators": n}}


def check_fuzz(case):
    return FZ.run_campaign("fuzz_grammar", case, PROPERTY)


def enum_consumers(tier):
    for i in range(4 if tier == "quick" else 12):
        pub = keys.pub_hex(keys.POOL[i])
        for j, v in enumerate(GE.key_variants(pub) + [pub.upper()[:32] + pub[32:], pub[:63] + pub[63].upper()]):
            if v != pub:
                yield {"seed": keys.POOL[i].hex(), "variant": v, "j": j}


def check_consumers(case):
    """one spelling per key, at every function that takes a key string: a genuine signature by the key, presented together with
    another spelling of that key (upper case, blanks, 0x, non-ASCII digits, ...), is never accepted"""
    from conda_content_trust import authentication as A
    from vlib import gen_metadata as GM, ref_openpgp
    from vlib.ref_canon import canon
    seed, v = bytes.fromhex(case["seed"]), case["variant"]
    pub = keys.pub_hex(seed)
    payload = {"name": "pkg", "n": case["j"]}
    B = canon(payload)
    gent = ref_openpgp.entry(seed, B)
    rent = {"signature": keys.sign_raw(seed, B).hex()}
    probes = [
        ("verify_gpg_signature(entry, <variant>, payload)", lambda: A.verify_gpg_signature(dict(gent), v, B)),
        ("PublicKey.from_hex(<variant>)", lambda: C.PublicKey.from_hex(v)),
        ("verify_signable(gpg=True) with the entry filed under and authorized as <variant>",
         lambda: A.verify_signable({"signatures": {v: dict(gent)}, "signed": payload}, [v], 1, gpg=True)),
        ("verify_signable(gpg=False) with the entry filed under and authorized as <variant>",
         lambda: A.verify_signable({"signatures": {v: dict(rent)}, "signed": payload}, [v], 1, gpg=False)),
        ("verify_signable with the entry filed under <variant>, the canonical key authorized",
         lambda: A.verify_signable({"signatures": {v: dict(rent)}, "signed": payload}, [pub], 1)),
        ("verify_delegation under trusted metadata that lists <variant>",
         lambda: A.verify_delegation("pkg_mgr", {"signatures": {v: dict(rent), pub: dict(rent)}, "signed": payload},
                                     GM.wrap(GM.signed_part("key_mgr", {"pkg_mgr": {"pubkeys": [v], "threshold": 1}})))),
    ]
    for what, f in probes:
        try:
            f()
        except Exception:       # noqa: BLE001 - any refusal is fine here; the classes are C13's business
            continue
        raise Violation("%s returned normally for the spelling %r of key %s: a second spelling of one key is honoured" % (what, v, pub[:16]),
                        bucket="key spelling honoured by " + what.split("(")[0])
    return {"nontrivial": True, "labels": ["variant=%d" % case["j"]]}


UNITS = [
    Unit("key_consumers", check_consumers, enumerate=enum_consumers, exhaustive=True, shards_quick=4,
         doc="every function that takes a key string x 17 other spellings of a genuine signer's key: never honoured"),
    Unit("strings", check_strings, strategy=_strings, quick=3000, thorough=100000,
         essential=["kind=sub", "kind=ins", "kind=app", "kind=length", "kind=upper", "kind=mixed"],
         doc="boundary strings x {hex string, key, signature, fingerprint} validators == regex grammars; pair agreement"),
    Unit("pyvalues", check_pyvalues, strategy=lambda: st.builds(lambda v: {"v": v}, st.one_of(GP.scalars, GP.scalars, GP.python_values)),
         quick=2000, thorough=60000, doc="every Python value: predicates return False without raising, raisers raise TypeError/ValueError"),
    Unit("entries", check_entries, strategy=_entries, quick=3000, thorough=100000,
         essential=["shape=raw", "shape=gpg", "shape=invalid"], doc="dicts as signature entries == raw / OpenPGP shapes"),
    Unit("keylists", check_keylists, strategy=_keylists, quick=1500, thorough=50000,
         essential=["dup", "variants"], doc="accepted key strings/lists/delegations never hold one key under two spellings"),
    Unit("fuzz", check_fuzz, enumerate=lambda tier: FZ.campaigns(tier, PROPERTY), shards_quick=4, shards_thorough=16,
         doc="atheris (libFuzzer) coverage-guided campaign with the oracle in-target"),
    Unit("boundary", check_boundary, enumerate=enum_boundary, exhaustive=True, shards_quick=8,
         doc="every position x every special character x {insert, substitute, substitute+delete, replace a byte pair} on a valid key/signature/fingerprint"),
    _cfgunit.unit_under_config(PROPERTY, 'strings', exclude=(), closed_stdout=True, n_cases=60),
    _cfgunit.unit_under_config(PROPERTY, 'entries', exclude=(), closed_stdout=True, n_cases=60),
    _interrupt.unit_interrupted(PROPERTY, 'strings', quick=30, thorough=750, max_points=150),
    _interrupt.unit_interrupted(PROPERTY, 'entries', quick=30, thorough=750, max_points=150),
    _interrupt.unit_interrupted(PROPERTY, 'keylists', quick=20, thorough=500, max_points=150),
    _interfere.unit_after(PROPERTY, 'strings', quick=150, thorough=6000),
    _interfere.unit_after(PROPERTY, 'entries', quick=150, thorough=6000),
]
