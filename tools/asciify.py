#!/usr/bin/env python3
"""Rewrite non-ASCII characters in the given Python sources as \\uXXXX escapes (keeps the
sources robust against editors and locales).  Only safe inside string literals."""
import sys
for p in sys.argv[1:]:
    s = open(p, encoding="utf-8", errors="surrogatepass").read()
    out = []
    for ch in s:
        o = ord(ch)
        if o < 0x80:
            out.append(ch)
        elif o < 0x10000:
            out.append("\\u%04x" % o)
        else:
            out.append("\\U%08x" % o)
    t = "".join(out)
    if t != s:
        open(p, "w", encoding="ascii").write(t)
        print("asciified", p)
