"""Generators of JSON values: exactly what a parser of well-formed JSON text can return."""
import math

from hypothesis import strategies as st

HI = range(0xD800, 0xDC00)
LO = range(0xDC00, 0xE000)


def no_adjacent_pair(s):
    """A parser merges \\uD83D\\uDE00 into one character, so a str holding a high
    surrogate immediately followed by a low one is not a parser output.  Break
    such pairs (construction, not rejection)."""
    out = []
    prev_hi = False
    for ch in s:
        o = ord(ch)
        if prev_hi and o in LO:
            out.append("x")
        out.append(ch)
        prev_hi = o in HI
    return "".join(out)


SPECIAL_STRINGS = [
    # strings that spell JSON themselves (a payload that IS such a string must be signed as a string)
    '{"a": 1}', "[1, 2]", "{}", "[]", ' {"signed": 1}', "null", "12", '"quoted"', '{"signatures": {}, "signed": {}}',
    "", " ", "\x00", "\x7f", "\x1f", "\u0080", "\u00e9", "e\u0301", "\u00a0", "\u2003",
    "\ud800", "\udfff", "\udc00\ud800", "\U0001f600", "\U0010ffff", "\uffff", "\ufeff",
    '"', "\\", "/", "\\u0041", "\n", "\r\n", "\t", "null", "true", "1", "1.0", "NaN",
    "signatures", "signed", "\u00df", "\u0130", "\uff11", "a" * 70, "<script>", "\x85",
    "\u2028", "\u2029",
]

_ascii = st.text(st.characters(min_codepoint=0x20, max_codepoint=0x7E), max_size=12)
_full = st.text(st.characters(exclude_categories=()), max_size=10).map(no_adjacent_pair)
_ctrl = st.text(st.characters(min_codepoint=0, max_codepoint=0xFF), max_size=6)
_surr = st.text(st.sampled_from(["\ud800", "\udbff", "\udc00", "\udfff", "a", "\U00010000",
                                 "\uffff", "\u00e9"]), max_size=5).map(no_adjacent_pair)

strings = st.one_of(_ascii, _ascii, _full, _ctrl, _surr, st.sampled_from(SPECIAL_STRINGS))


def _norm_float(f):
    return math.nan if f != f else f


SPECIAL_FLOATS = [0.0, -0.0, 1.0, -1.0, 1.5, 0.1, 1e16, 1e22, 1e23, 5e-324, 2.2250738585072014e-308,
                  1.7976931348623157e308, math.inf, -math.inf, math.nan, 9007199254740993.0,
                  1e-7, 123456789012345680.0, 1e21, 1e-5, 0.30000000000000004]
floats = st.one_of(st.floats(allow_nan=True, allow_infinity=True).map(_norm_float),
                   st.sampled_from(SPECIAL_FLOATS))

SPECIAL_INTS = [0, 1, -1, 2 ** 31, 2 ** 53, 2 ** 53 + 1, -2 ** 63, 2 ** 64, 10 ** 22, 2 ** 70, 10 ** 400,
                -10 ** 1000, 2 ** 2048]
ints = st.one_of(st.integers(-1000, 1000), st.integers(-2 ** 70, 2 ** 70),
                 st.integers(-2 ** 2048, 2 ** 2048), st.sampled_from(SPECIAL_INTS))

scalars = st.one_of(st.none(), st.booleans(), ints, floats, strings, strings)

# a conda package record, the realistic payload
_names = st.sampled_from(["numpy", "python", "zlib", "openssl", "r-base", "_libgcc_mutex", "caf\u00e9"])
_ver = st.builds(lambda a, b, c: "%d.%d.%d" % (a, b, c), st.integers(0, 30), st.integers(0, 30),
                 st.integers(0, 30))
_hex = st.text("0123456789abcdef", min_size=32, max_size=64)
package_record = st.fixed_dictionaries(
    {"name": _names, "version": _ver, "build": st.sampled_from(["py38_0", "h1234567_1", "0"]),
     "build_number": st.integers(0, 9999),
     "depends": st.lists(st.builds(lambda n, v: n + " >=" + v, _names, _ver), max_size=4),
     "md5": _hex, "sha256": _hex, "size": st.integers(0, 2 ** 40)},
    optional={"timestamp": st.integers(0, 2 ** 44), "license": strings, "subdir": st.sampled_from(
        ["linux-64", "noarch", "osx-arm64"]), "constrains": st.lists(strings, max_size=2),
        "track_features": strings, "noarch": st.sampled_from(["python", "generic", None, True]),
        "weight": floats})


def json_values(max_leaves=25):
    return st.recursive(
        scalars,
        lambda ch: st.one_of(st.lists(ch, max_size=6),
                             st.dictionaries(strings, ch, max_size=6)),
        max_leaves=max_leaves)


# a payload that itself looks like a signed envelope (counter-signing, wrapping twice)
envelope_shaped = st.builds(lambda sigs, signed: {"signatures": sigs, "signed": signed},
                            st.sampled_from([{}, {"ab" * 32: {"signature": "cd" * 64}}]), st.one_of(package_record, json_values(5)))

# top-level scalars that invite "helpful" reinterpretation: strings that spell JSON, numbers as strings, booleans, null
top_level_oddities = st.sampled_from(['{"a": 1}', "[1, 2]", "{}", "[]", ' {"signed": 1}', "null", "12", '"quoted"',
                                      '{"signatures": {}, "signed": {}}', "", "true", True, False, None, 0, -0.0, 1.0])

payloads = st.one_of(json_values(), json_values(8), package_record, package_record,
                     st.dictionaries(strings, json_values(6), max_size=5), envelope_shaped, top_level_oddities)


def deep_value(depth, leaf=1):
    v = leaf
    for i in range(depth):
        v = [v] if i % 2 else {"k": v}
    return v


def shuffled(v, draw):
    """A jeq-equal copy of v with every object's keys re-inserted in a drawn order."""
    if type(v) is dict:
        keys = list(v)
        if len(keys) > 1:
            keys = draw(st.permutations(keys))
        return {k: shuffled(v[k], draw) for k in keys}
    if type(v) is list:
        return [shuffled(x, draw) for x in v]
    return v


def reversed_keys(v):
    if type(v) is dict:
        return {k: reversed_keys(v[k]) for k in reversed(list(v))}
    if type(v) is list:
        return [reversed_keys(x) for x in v]
    return v


def features(v):
    """Feature labels of a JSON value (used for the non-triviality rules)."""
    f = set()

    def walk(x, d):
        if d >= 3:
            f.add("depth>=3")
        if type(x) is str:
            _sf(x)
        elif type(x) is float:
            f.add("float")
            if x != x or x in (math.inf, -math.inf):
                f.add("nan/inf")
        elif type(x) is int and abs(x) > 2 ** 53:
            f.add("int>2^53")
        elif type(x) is list:
            for y in x:
                walk(y, d + 1)
        elif type(x) is dict:
            ks = list(x)
            if len(ks) >= 2 and ks != sorted(ks):
                f.add("unsorted-keys")
            for k in ks:
                _sf(k)
                walk(x[k], d + 1)

    def _sf(s):
        for ch in s:
            o = ord(ch)
            if o > 0xFFFF:
                f.add("non-bmp")
            elif 0xD800 <= o < 0xE000:
                f.add("lone-surrogate")
            elif o >= 0x7F:
                f.add("non-ascii")
            elif o < 0x20:
                f.add("control")

    walk(v, 0)
    return f


def paths(v, prefix=()):
    """All JSON paths (tuples of keys/indices) to every node of v, root included."""
    yield prefix
    if type(v) is dict:
        for k in v:
            yield from paths(v[k], prefix + (k,))
    elif type(v) is list:
        for i, x in enumerate(v):
            yield from paths(x, prefix + (i,))


def get_path(v, path):
    for p in path:
        v = v[p]
    return v


def set_path(v, path, new):
    """Return a deep copy of v with the node at path replaced (root: returns new)."""
    import copy
    if not path:
        return new
    v = copy.deepcopy(v)
    cur = v
    for p in path[:-1]:
        cur = cur[p]
    cur[path[-1]] = new
    return v


def del_path(v, path):
    import copy
    v = copy.deepcopy(v)
    cur = v
    for p in path[:-1]:
        cur = cur[p]
    del cur[path[-1]]
    return v
