"""Concurrent use: a batch of verifier calls, each in its own thread, interleaved at line granularity by the harness-owned
scheduler (vlib/sched.py: exactly one thread runs at any time and the hand-overs are a drawn list, so an interleaving is a
pure function of the case).  Every call must still get the verdict the reference model gives it on its own arguments -
whatever another thread was verifying in the meantime.

unit_threads(prop) builds the Unit; the calls come from the mixed corpus of C12 (verify_signable in both modes, verify_root
over generated pairs and chains, verify_delegation)."""
import copy
import os

from . import cfgunit, ref_verify as RV, sched
from .runner import REPO, Inconclusive, Unit, Violation

PKG = os.path.join(os.path.realpath(REPO), "conda_content_trust")


def _thunk(c):
    from conda_content_trust import authentication as A
    c = copy.deepcopy(c)
    if c[0] == "verify_signable":
        return lambda: RV.outcome(A.verify_signable, c[1], c[2], c[3], gpg=c[4])[0]
    if c[0] == "verify_root":
        return lambda: RV.outcome(A.verify_root, c[1], c[2])[0]
    return lambda: RV.outcome(A.verify_delegation, c[1], c[2], c[3], gpg=c[4])[0]


def check_threads(case):
    calls = case["calls"][:6]
    expects = [cfgunit.expectation(c) for c in calls]
    # one after the other first (also warms nothing up that a stateless library would keep)
    for i, (c, e) in enumerate(zip(calls, expects)):
        bad = RV.mismatch(e, _thunk(c)())
        if bad:
            raise Violation("call %d (%s), alone: %s" % (i, c[0], bad), bucket="sequential verdict wrong")
    try:
        results, switches, trace = sched.run([_thunk(c) for c in calls], case["choices"], PKG)
    except sched.SchedulerStuck as e:
        raise Inconclusive("owned schedule did not complete: %s" % e)
    for i, (r, e) in enumerate(zip(results, expects)):
        if r[0] == "raise":
            if isinstance(r[1], sched.SchedulerStuck):
                raise Inconclusive("owned schedule stuck")
            got = type(r[1]).__name__
        else:
            got = r[1]
        bad = RV.mismatch(e, got)
        if bad:
            raise Violation("%d calls in %d threads interleaved at line granularity (%d hand-overs inside the library): call %d (%s): %s; "
                            "alone it gets the right verdict" % (len(calls), len(calls), switches, i, calls[i][0], bad),
                            bucket="verdict depends on interleaving")
    kinds = {e.kind for e in expects}
    return {"nontrivial": switches >= 3 and len(kinds) > 1, "labels": ["threads=%d" % len(calls), "switches>=50" if switches >= 50 else "switches<50",
                                                                     "mixed-verdicts" if len(kinds) > 1 else "uniform-verdicts"],
            "count": {"context_switches": switches}}


def unit_threads(prop, quick=120, thorough=5000):
    from hypothesis import strategies as st

    def strategy():
        from props import C12
        return st.fixed_dictionaries({"calls": C12._config_cases().map(lambda c: c["calls"]),
                                      "choices": st.lists(st.integers(0, 5), min_size=20, max_size=400)})

    return Unit("threads", check_threads, strategy=strategy, quick=quick, thorough=thorough, shards_quick=8,
                doc="3-6 verifier calls (both modes, root pairs and chains, delegations) in as many threads under harness-owned line-granular "
                    "interleavings: each verdict == the reference verdict for that call's own arguments")
