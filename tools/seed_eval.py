#!/usr/bin/env python3
"""Confirm and evaluate a seeded change produced by an independent sub-agent.

  tools/seed_eval.py <out-dir> <N> <seed-id> <breaks-property> [checks to run ...]

<out-dir> holds mutN.diff / demoN.py / noteN.txt.  Steps, all in a scratch copy of /repo outside
/repo and /verif (removed afterwards):
  1. demo on the untouched copy            -> must exit 0
  2. apply the diff; repository baseline   -> the 64 stable tests must still pass
  3. demo with the change                  -> must exit 1
  4. run the named quick checks against the changed copy -> KILLED / SURVIVED per check
If 1-3 hold the change is confirmed and stored as /verif/seeded/<seed-id>/ (patch.diff, demo.py,
meta.json with what was run and which checks caught it).
"""
import json
import os
import shutil
import subprocess
import sys
import tempfile
import xml.etree.ElementTree as ET

VERIF = os.path.dirname(os.path.dirname(os.path.abspath(__file__)))
PY = "/venv/bin/python"


def sh(cmd, cwd=None, env=None, timeout=1800):
    p = subprocess.run(cmd, cwd=cwd, env=env, stdout=subprocess.PIPE, stderr=subprocess.STDOUT, text=True,
                       timeout=timeout)
    return p.returncode, p.stdout


def main():
    out, n, sid, prop = sys.argv[1:5]
    checks = sys.argv[5:] or [prop]
    diff = os.path.join(out, "mut%s.diff" % n)
    demo = os.path.join(out, "demo%s.py" % n)
    note = os.path.join(out, "note%s.txt" % n)
    scr = tempfile.mkdtemp(prefix="seedeval.")
    repo = os.path.join(scr, "repo")
    try:
        sh(["rsync", "-a", "--exclude", ".git", "--exclude", "__pycache__", "--exclude", "htmlcov", "/repo/", repo + "/"])
        env = dict(os.environ, PYTHONPATH=repo, PYTHONDONTWRITEBYTECODE="1")
        src = open(demo, encoding="utf-8").read()
        # demos were written against the agent's worktree path; point them at the scratch copy
        wt = os.path.dirname(os.path.abspath(out))
        os.makedirs(os.path.join(repo, "_out"))
        with open(os.path.join(repo, "_out", "demo.py"), "w", encoding="utf-8") as f:
            f.write(src.replace(wt, repo))
        rc0, o0 = sh([PY, "_out/demo.py"], cwd=repo, env=env)
        rc, o = sh(["patch", "-p1", "-s", "-i", os.path.abspath(diff)], cwd=repo)
        if rc != 0:
            print("PATCH FAILED", o)
            return 3
        rct, ot = sh([PY, "-m", "pytest", "-q", "-p", "no:cacheprovider", "-o", "addopts=", "--junitxml",
                      os.path.join(scr, "junit.xml"), "tests"], cwd=repo, env=env)
        b = json.load(open("/root/.vp/BASELINE.json"))
        res = {}
        for tc in ET.parse(os.path.join(scr, "junit.xml")).iter("testcase"):
            bad = [c.tag for c in tc if c.tag in ("failure", "error", "skipped")]
            res[tc.get("classname") + "::" + tc.get("name")] = not bad
        missing = [t for t in b["stable_pass"] if not res.get(t)]
        rc1, o1 = sh([PY, "_out/demo.py"], cwd=repo, env=env)
        confirmed = rc0 == 0 and rc1 == 1 and not missing
        print("seed %s: demo clean=%d mutated=%d baseline-missing=%r -> %s" % (
            sid, rc0, rc1, missing, "CONFIRMED" if confirmed else "NOT CONFIRMED"))
        if not confirmed:
            print(o0[-800:], "\n----\n", o1[-800:])
        results = {}
        for c in checks:
            envc = dict(os.environ, VERIF_REPO=repo, VERIF_OUT_DIR=os.path.join(scr, "out"))
            envc.pop("PYTHONPATH", None)
            rcc, oc = sh([os.path.join(VERIF, "vcheck"), c] + os.environ.get("VCHECK_ARGS", "").split(), cwd=VERIF, env=envc)
            verdict = {0: "SURVIVED", 1: "KILLED"}.get(rcc, "ERROR(%d)" % rcc)
            first = next((l.strip() for l in oc.splitlines() if "violation:" in l), "")
            results[c] = {"verdict": verdict, "first_violation": first[:300]}
            print("  %-8s %s %s" % (verdict, c, first[:200]))
            if rcc not in (0, 1):
                print(oc[-1500:])
        if confirmed:
            d = os.path.join(VERIF, "seeded", sid)
            os.makedirs(d, exist_ok=True)
            shutil.copy(diff, os.path.join(d, "patch.diff"))
            with open(os.path.join(d, "demo.py"), "w", encoding="utf-8") as f:
                f.write(src.replace(wt, "/repo"))
            meta = {
                "id": sid, "breaks_property": prop,
                "needs_to_manifest": open(note, encoding="utf-8").read().strip() if os.path.exists(note) else "",
                "origin": "independent sub-agent given only the property text and a scratch worktree",
                "confirmed": {
                    "how": "scratch copy of /repo: demo exit on untouched copy / with patch; repository baseline with patch",
                    "demo_exit_clean": rc0, "demo_exit_mutated": rc1,
                    "baseline_stable_tests_pass_with_patch": not missing,
                    "run_demo": "git -C /repo apply seeded/%s/patch.diff && (cd /repo && PYTHONPATH=/repo /venv/bin/python /verif/seeded/%s/demo.py); git -C /repo checkout -- ." % (sid, sid),
                },
                "checks": results,
            }
            old = os.path.join(d, "meta.json")
            if os.path.exists(old):
                prev = json.load(open(old))
                prev_checks = prev.get("checks", {})
                prev_checks.update(results)
                meta["checks"] = prev_checks
                if prev.get("history"):
                    meta["history"] = prev["history"]
            with open(old, "w", encoding="utf-8") as f:
                json.dump(meta, f, indent=1)
        return 0
    finally:
        shutil.rmtree(scr, ignore_errors=True)


if __name__ == "__main__":
    sys.exit(main())
