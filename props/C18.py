"""C18 - in-place signing is all-or-nothing with respect to failures (fault enumeration)."""
import copy
import gc
import json
import os
import shutil
import tempfile

from hypothesis import strategies as st

import conda_content_trust
from conda_content_trust import cli as CLI, common as C, root_signing as RS, signing as S

from props import C11
from vlib import faults, gen_json as G, gen_metadata as GM, gen_repodata as GR, gpgstub, keys, ref_grammar as g, ref_openpgp, \
    ref_verify as RV
from vlib.ref_canon import canon, jeq
from vlib import cfgunit as _cfgunit
from vlib.runner import Unit, Violation

PROPERTY = "C18"
LEVEL = "fault_enumeration"
RULE = ("For each generated document (repodata with 1-6 artifacts in either section; signable metadata for the GPG path with an "
        "in-process RFC 4880 stand-in signer) the signing procedure is first run fault-free under a tracer, which numbers every "
        "'line' event executed inside the repository package, timestamps every opening of the target for writing, every "
        "os.replace onto it and every Ed25519 signing operation (seen through sys.setprofile, however the code is written). "
        "Then the run is repeated once per line event k = 1..N with an exception injected just before that line executes "
        "(exhaustive over line events of that document). Oracles: (I1) a fault before the first write-open leaves the file "
        "byte-identical and the call raises; (I2) at the first write-open every signature has been computed (count == number "
        "of artifacts, resp. 1) and none follows, and there is exactly one write-open; (I3) while the target is open for "
        "writing no repository or json-encoder function is called (the bytes were complete before truncation); (I4) after any "
        "fault the file is the original or the complete expected output, or - only for faults inside the write window - a "
        "prefix of it; a well-formed but partially signed document is never acceptable. Also: the same for the CLI "
        "sub-commands in-process, stand-in signer faults (create_signature / export_pubkey raising, dependency missing), and "
        "malformed inputs (no packages, sections of the wrong JSON type, bad key hex, wrong-typed or list-valued fingerprint, "
        "not JSON): the call raises and the file is byte-identical. Non-trivial = the fault lands after at least one "
        "signature was computed (or the malformed input fails after signing started).")
ASSUMPTIONS = ["faults are Python-level exceptions at line boundaries; power loss / SIGKILL during write() are outside the property",
               "the OpenPGP path uses the in-process stand-in for securesystemslib (vlib/gpgstub.py)"]

PKG = os.path.dirname(os.path.realpath(conda_content_trust.__file__))


# ---- the procedures under test ----------------------------------------------------------------------------------------------

def _setup(case, d):
    """Write the input file; return (target path, callable, expected-bytes-after, n_signatures)."""
    seed = bytes.fromhex(case["seed"])
    proc = case["proc"]
    if proc in ("repodata", "cli-sign-artifacts"):
        fn = os.path.join(d, "repodata.json")
        original = GR.spell(case["doc"], case.get("style", "canonical"), canon)
        with open(fn, "wb") as f:
            f.write(original)
        expected = canon(C11.expected_after(case["doc"], seed))
        nsig = len(case["doc"].get("packages", {})) + len(case["doc"].get("packages.conda", {}))
        if proc == "repodata":
            call = lambda: S.sign_all_in_repodata(fn, seed.hex())
        else:
            kf = os.path.join(d, "key.hex")
            with open(kf, "w") as f:
                f.write(seed.hex() + "\n")

            def call():
                rc = CLI.cli(["sign-artifacts", fn, kf])
                if rc not in (None, 0):
                    raise RuntimeError("cli returned %r" % (rc,))
        return fn, call, original, expected, nsig
    # GPG path
    fn = os.path.join(d, "metadata.json")
    env = GM.wrap(copy.deepcopy(case["doc"]), {k: v for k, v in case.get("pre", [])})
    original = canon(env)
    with open(fn, "wb") as f:
        f.write(original)
    fpr = gpgstub.fingerprint_of(seed)
    if proc == "gpg":
        call = lambda: RS.sign_root_metadata_via_gpg(fn, fpr)
    else:
        def call():
            rc = CLI.cli(["gpg-sign", " ".join(fpr.upper()[i:i + 4] for i in range(0, 40, 4)), fn])
            if rc not in (None, 0):
                raise RuntimeError("cli returned %r" % (rc,))
    return fn, call, original, None, 1


def _gpg_complete(data, case):
    """Is data the complete output of the GPG path for this case?"""
    seed = bytes.fromhex(case["seed"])
    try:
        after = json.loads(data)
    except Exception:
        return False
    if canon(after) != data or not isinstance(after, dict) or not jeq(after.get("signed"), case["doc"]):
        return False
    pub = keys.pub_hex(seed)
    sigs = after.get("signatures")
    if not isinstance(sigs, dict):
        return False
    ent = sigs.get(pub)
    if not (g.is_gpg_entry(ent) and ref_openpgp.valid(pub, ent, canon(case["doc"]))):
        return False
    rest = {k: v for k, v in sigs.items() if k != pub}
    want = {k: v for k, v in case.get("pre", []) if k != pub}
    return jeq(rest, want)


def _classify(data, original, expected, case):
    if data == original:
        return "original"
    if expected is not None:
        if data == expected:
            return "complete"
        if expected.startswith(data):
            return "prefix"
    else:
        if _gpg_complete(data, case):
            return "complete"
        # prefix of some complete output: cannot be recomputed (time-stamped headers); accept only a strict prefix shape
        try:
            json.loads(data)
        except Exception:
            return "prefix?"
    return "other"


def check_sweep(case):
    seed = bytes.fromhex(case["seed"])
    stub = gpgstub.Stub([seed])
    d = tempfile.mkdtemp(prefix="c18-")
    sweeps = 0
    after_first_sig = 0
    try:
        gpgstub.install(RS, stub)
        fn, call, original, expected, nsig = _setup(case, d)
        # ---- fault-free reference run -----------------------------------------------------------------------------
        gran = case.get("granularity", "line")
        if gran == "opcode":
            # CPython 3.12 starts delivering opcode events for a code object only from the tracing session after the one that
            # asked for them: two throw-away runs make the event numbering of the reference run and of the fault runs agree
            for _ in range(2):
                faults.run(call, PKG, fn, granularity=gran)
                with open(fn, "wb") as f:
                    f.write(original)
        ref = faults.run(call, PKG, fn, keep_lines=True, granularity=gran)
        if ref.outcome != "return":
            raise Violation("%s failed on well-formed input without any injected fault: %s %s" % (case["proc"], ref.outcome, str(ref.exc)[:100]),
                            bucket="signing fails on valid input")
        data = open(fn, "rb").read()
        if _classify(data, original, expected, case) != "complete":
            raise Violation("%s completed but the file is not the complete expected output" % case["proc"], bucket="output wrong")
        opens = [e for e in ref.log if e[1] in ("open-w", "replace")]
        signs = [e for e in ref.log if e[1] == "sign"]
        if len(opens) != 1:
            raise Violation("%s opens / replaces the target for writing %d times (a single final write is expected)"
                            % (case["proc"], len(opens)), bucket="multiple writes of the target")
        w = opens[0][0]
        if case["proc"] in ("repodata", "cli-sign-artifacts") and gran == "line":
            before = [e for e in signs if e[0] <= w]
            if len(before) != nsig or len(signs) != nsig:
                raise Violation("%s: %d of %d signatures had been computed when the output file was opened for writing (%d computed later)"
                                % (case["proc"], len(before), nsig, len(signs) - len(before)), bucket="write before all signatures")
        inwin = [e for e in ref.log if e[1] == "call-in-window"]
        if inwin:
            raise Violation("%s: while the output file is open for writing (already truncated) the code calls %s - the bytes were not "
                            "complete before the file was opened" % (case["proc"], sorted({e[2] for e in inwin})[:4]),
                            bucket="work inside the write window")
        close = [e for e in ref.log if e[1] == "close-w"]
        w_end = close[0][0] if close else w
        first_sig = signs[0][0] if signs else (w if case["proc"].startswith("repo") or case["proc"].startswith("cli-sign") else 0)
        if gran == "opcode":
            first_sig = w // 2      # (no signing observer at opcode granularity: roughly the second half of the run)
        # ---- one run per line event ------------------------------------------------------------------------------------
        N = ref.events
        # the class of the injected exception rotates (plain Exception, KeyError, OSError, KeyboardInterrupt, MemoryError ...):
        # a handler that is too broad or sits around too much code swallows some of them
        rot = faults.rotating(case.get("class_offset", 0))
        for k in range(1, N + 1):
            if gran == "opcode":
                gc.collect()
            with open(fn, "wb") as f:
                f.write(original)
            stub.calls.clear()
            tr = faults.run(call, PKG, fn, fault_at=k, granularity=gran, fault_base=rot(k))
            sweeps += 1
            if not os.path.isfile(fn):
                where = ref.lines[k - 1] if k - 1 < len(ref.lines) else ("?", "?", 0)
                raise Violation("%s: an error at %s:%s:%d (line event %d of %d) left NO file at all where the original was"
                                % ((case["proc"],) + tuple(where) + (k, N)), bucket="file deleted by a failed call")
            data = open(fn, "rb").read()
            cls = _classify(data, original, expected, case)
            where = ref.lines[k - 1] if k - 1 < len(ref.lines) else ("?", "?", 0)
            in_window = w <= k - 1 <= w_end + 1
            if k - 1 < w:
                # the fault hits before the output phase
                if tr.outcome == "return":
                    raise Violation("%s swallowed an error raised at %s:%s:%d and reported success" % ((case["proc"],) + where),
                                    bucket="error swallowed")
                if cls != "original":
                    raise Violation("%s: an error at %s:%s:%d (line event %d of %d, before the output is written) left the file %s"
                                    % ((case["proc"],) + where + (k, N, {"complete": "fully signed although the call failed",
                                                                         "prefix": "truncated", "prefix?": "truncated / unparseable",
                                                                         "other": "partially signed / changed"}[cls])),
                                    bucket="file changed by a failure before output: " + cls)
            else:
                if cls == "other" or (cls in ("prefix", "prefix?") and not in_window):
                    raise Violation("%s: an error at %s:%s:%d (line event %d of %d) left a file that is neither the original nor the "
                                    "complete output (%s)" % ((case["proc"],) + where + (k, N, cls)), bucket="partial output: " + cls)
            if first_sig and k - 1 > first_sig and k - 1 < w:
                after_first_sig += 1
            # A fault between open() and the with-block (possible at opcode granularity) leaks the file object; it lives on in
            # the exception's traceback and would flush its buffer into the file of the NEXT iteration when finalized.
            tr.exc = None
            del tr
            if gran == "opcode":
                gc.collect()
        if sorted(os.listdir(d)) not in ([os.path.basename(fn)], sorted([os.path.basename(fn), "key.hex"])):
            raise Violation("signing left extra files behind: %r" % os.listdir(d), bucket="extra files")
    finally:
        gpgstub.uninstall(RS)
        shutil.rmtree(d, ignore_errors=True)
    return {"nontrivial": after_first_sig > 0, "labels": ["proc=" + case["proc"], "granularity=" + gran, "events=%d+" % (100 * (ref.events // 100))],
            "count": {"fault_runs": sweeps, "faults_after_first_signature_before_output": after_first_sig, "line_events": ref.events}}


@st.composite
def _sweep_cases(draw):
    proc = ["repodata", "repodata", "cli-sign-artifacts", "gpg", "cli-gpg-sign"][draw(st.integers(0, 10 ** 6)) % 5]
    seed = draw(keys.seeds).hex()
    if proc in ("repodata", "cli-sign-artifacts"):
        return {"proc": proc, "seed": seed, "doc": draw(GR.repodata(min_artifacts=1, max_artifacts=6)),
                "style": draw(st.sampled_from(GR.STYLES)), "class_offset": draw(st.integers(0, 8))}
    doc = draw(st.one_of(GM.signed_parts([keys.pub_hex(keys.POOL[0])]), G.package_record, G.payloads))
    pre = draw(st.lists(st.tuples(st.one_of(G.strings, keys.ghost_keys), st.sampled_from([{"signature": "ab" * 64}, 5, "x"])), max_size=2))
    return {"proc": proc, "seed": seed, "doc": doc, "pre": [list(p) for p in pre], "class_offset": draw(st.integers(0, 8))}


@st.composite
def _sweep_cases_opcode(draw):
    c = draw(_sweep_cases())
    if "doc" in c and c["proc"] in ("repodata", "cli-sign-artifacts"):
        # keep opcode sweeps affordable: at most three artifacts
        for sec in ("packages", "packages.conda"):
            if isinstance(c["doc"].get(sec), dict):
                c["doc"][sec] = dict(list(c["doc"][sec].items())[:2])
        if not c["doc"].get("packages") and not c["doc"].get("packages.conda"):
            c["doc"]["packages"] = {"a-1.0-0.tar.bz2": {"name": "a", "depends": []}}
    c["granularity"] = "opcode"
    return c


# ---- malformed inputs and signer faults: the call fails, the file stays ------------------------------------------------------------

BAD_REPO = ["no-packages", "packages-null", "packages-list", "packages-str", "conda-null", "conda-list", "conda-str", "conda-int",
            "meta-unserializable-depth", "top-list", "not-json", "empty-file", "bad-key-short", "bad-key-upper", "bad-key-type",
            "fname-not-str", "info-deep", "info-deep-big"]
BAD_GPG = ["unknown-fpr", "upper-fpr", "short-fpr", "list-good-bad", "tuple-good-bad", "list-good", "none-fpr", "create-raises", "export-raises",
           "no-sslib", "not-json", "not-signable", "signed-unserializable", "junk-sig-deep", "comma-good-bad", "comma-good-trailing",
           "comma-good-good-bad", "blank-good-bad"]


def _deep(n):
    v = 1
    for _ in range(n):
        v = [v]
    return v


@st.composite
def _bad_cases(draw):
    if draw(st.booleans()):
        return {"proc": "repodata", "bad": draw(st.sampled_from(BAD_REPO)), "seed": draw(keys.seeds).hex(),
                "doc": draw(GR.repodata(min_artifacts=1, max_artifacts=4)), "via_cli": draw(st.booleans())}
    return {"proc": "gpg", "bad": draw(st.sampled_from(BAD_GPG)), "seed": draw(keys.seeds).hex(),
            "doc": draw(st.one_of(G.package_record, GM.signed_parts([keys.pub_hex(keys.POOL[0])]))), "via_cli": draw(st.booleans())}


def check_bad(case):
    seed = bytes.fromhex(case["seed"])
    other = keys.POOL[9] if seed != keys.POOL[9] else keys.POOL[8]
    stub = gpgstub.Stub([seed])
    bad = case["bad"]
    d = tempfile.mkdtemp(prefix="c18b-")
    import sys
    old_limit = sys.getrecursionlimit()
    try:
        gpgstub.install(RS, stub)
        if case["proc"] == "repodata":
            fn = os.path.join(d, "repodata.json")
            doc = copy.deepcopy(case["doc"])
            key = seed.hex()
            cli_seed = seed
            fname = fn
            if bad == "no-packages":
                doc.pop("packages")
            elif bad.startswith("packages-"):
                doc["packages"] = {"null": None, "list": [1], "str": "x"}[bad.split("-")[1]]
            elif bad.startswith("conda-"):
                # the first section signs fine, the second one is of the wrong JSON type
                if not doc.get("packages"):
                    doc["packages"] = {"a-1.0-0.tar.bz2": {"name": "a"}}
                doc["packages.conda"] = {"null": None, "list": [1], "str": "x", "int": 7}[bad.split("-")[1]]
            elif bad == "top-list":
                doc = [doc]
            elif bad == "bad-key-short":
                key = key[:-2]
            elif bad == "bad-key-upper":
                if key.upper() != key:
                    key = key.upper()
                else:       # a seed without letters (e.g. all zeros) has no upper-case spelling: use another key's
                    key = "AB" * 32
                    cli_seed = bytes.fromhex("ab" * 32)
            elif bad == "bad-key-type":
                key = seed
            elif bad == "fname-not-str":
                fname = fn.encode()
            elif bad in ("meta-unserializable-depth", "info-deep", "info-deep-big"):
                pass
            original = canon(doc) if bad not in ("not-json", "empty-file") else (b"{\"packages\": {" if bad == "not-json" else b"")
            if bad == "meta-unserializable-depth":
                # parses (C scanner) but cannot be serialized with indentation at the default recursion limit
                original = b'{"packages": {"a-1.0-0.tar.bz2": {"name": "a"}, "b-1.0-0.tar.bz2": ' + b"[" * 800 + b"]" * 800 + b"}}"
            if bad == "info-deep":
                original = b'{"info": ' + b"[" * 800 + b"]" * 800 + b', "packages": {"a-1.0-0.tar.bz2": {"name": "a"}}}'
            if bad == "info-deep-big":
                # the same with 17 000 artifacts (a streaming / incremental writer that only kicks in for big documents has
                # already truncated the file when the serialization of "info" fails)
                pk = b", ".join(b'"p%05d-1.0-0.tar.bz2": {"name": "p%05d"}' % (i, i) for i in range(17000))
                original = b'{"info": ' + b"[" * 800 + b"]" * 800 + b', "packages": {' + pk + b"}}"
            with open(fn, "wb") as f:
                f.write(original)
            if bad in ("meta-unserializable-depth", "info-deep", "info-deep-big"):
                sys.setrecursionlimit(400)
            if case["via_cli"] and bad not in ("bad-key-type", "fname-not-str"):
                kf = os.path.join(d, "key.hex")
                with open(kf, "w") as f:
                    f.write(key)

                def call():
                    rc = CLI.cli(["sign-artifacts", fn, kf])
                    if rc in (None, 0):
                        return
                    raise RuntimeError("cli exit status %r" % (rc,))
            else:
                call = lambda: S.sign_all_in_repodata(fname, key)
        else:
            fn = os.path.join(d, "metadata.json")
            env = GM.wrap(copy.deepcopy(case["doc"]))
            good = gpgstub.fingerprint_of(seed)
            unknown = gpgstub.fingerprint_of(other)
            arg = good
            original = canon(env)
            if bad == "unknown-fpr":
                arg = unknown
            elif bad == "upper-fpr":
                arg = good.upper() if good.upper() != good else unknown
            elif bad == "short-fpr":
                arg = good[:-1]
            elif bad == "list-good-bad":
                arg = [good, unknown]
            elif bad == "tuple-good-bad":
                arg = (good, good[:-1])
            elif bad == "list-good":
                arg = [good]
            elif bad == "none-fpr":
                arg = None
            elif bad.startswith("comma-") or bad.startswith("blank-"):
                # several fingerprints in one argument: not a fingerprint (if a front end ever splits it, a failure at a later
                # key must not leave the signatures of the earlier ones in the file)
                sep = "," if bad.startswith("comma-") else " "
                arg = {"comma-good-bad": good + sep + unknown, "comma-good-trailing": good + sep, "comma-good-good-bad": good + sep + " " + good + sep + unknown,
                       "blank-good-bad": good + sep + unknown}[bad]
            elif bad == "create-raises":
                stub.fail_create = gpgstub.CommandError("gpg: signing failed: Operation cancelled")
            elif bad == "export-raises":
                stub.fail_export = gpgstub.KeyNotFoundError("gpg: public key not found")
            elif bad == "no-sslib":
                RS.SSLIB_AVAILABLE = False
            elif bad == "not-json":
                original = b"{\"signatures\": {}, \"signed\": "
            elif bad == "not-signable":
                original = canon({"signatures": {}, "signed": case["doc"], "extra": 1})
            elif bad == "signed-unserializable":
                original = b'{"signatures": {}, "signed": ' + b"[" * 800 + b"]" * 800 + b"}"
            elif bad == "junk-sig-deep":
                original = b'{"signatures": {"junk": ' + b"[" * 800 + b"]" * 800 + b'}, "signed": {"a": 1}}'
            with open(fn, "wb") as f:
                f.write(original)
            if bad in ("signed-unserializable", "junk-sig-deep"):
                sys.setrecursionlimit(400)
            if (case["via_cli"] or bad.startswith(("comma-", "blank-"))) and isinstance(arg, str):
                def call():
                    rc = CLI.cli(["gpg-sign", arg, fn])
                    if rc in (None, 0):
                        return
                    raise RuntimeError("cli exit status %r" % (rc,))
            else:
                call = lambda: RS.sign_root_metadata_via_gpg(fn, arg)
        tr = faults.run(call, PKG, fn)
        sys.setrecursionlimit(old_limit)
        data = open(fn, "rb").read()
        signed_something = any(e[1] == "sign" for e in tr.log) or any(c[0] == "create_signature" for c in stub.calls)
        if tr.outcome == "return":
            # only acceptable if the input was in fact signable and the result is complete
            ok = False
            if case["proc"] == "gpg" and bad in ("upper-fpr",) and case["via_cli"]:
                ok = _gpg_complete(data, dict(case, doc=case["doc"]))      # the CLI lower-cases fingerprints by design
            if case["proc"] == "repodata" and bad == "bad-key-upper" and case["via_cli"]:
                ok = data == canon(C11.expected_after(case["doc"], cli_seed))   # the CLI lower-cases the key file by design
            if not ok:
                raise Violation("%s reported success on malformed input %r (file %s)" % (case["proc"], bad,
                                                                                     "unchanged" if data == original else "changed"),
                                bucket="success on malformed input " + bad)
        elif data != original:
            raise Violation("%s failed on malformed input %r (%s) but the file on disk changed (%d -> %d bytes)"
                            % (case["proc"], bad, tr.outcome, len(original), len(data)), bucket="file changed by failed call: " + bad)
    finally:
        sys.setrecursionlimit(old_limit)
        gpgstub.uninstall(RS)
        shutil.rmtree(d, ignore_errors=True)
    return {"nontrivial": signed_something, "labels": ["proc=" + case["proc"], "bad=" + bad, "outcome=" + tr.outcome.split("(")[0],
                                                       "cli" if case["via_cli"] else "api"]}


UNITS = [
    Unit("sweep", check_sweep, strategy=_sweep_cases, quick=48, thorough=1600, shards_quick=16,
         doc="exception injected at every executed line event of the signing procedures, per generated document"),
    Unit("sweep_opcode", check_sweep, strategy=_sweep_cases_opcode, quick=8, thorough=160, shards_quick=8,
         doc="the same sweep at bytecode-instruction granularity (every opcode executed in repository code is a fault point)"),
    Unit("malformed", check_bad, strategy=_bad_cases, quick=400, thorough=12000, shards_quick=8,
         doc="malformed inputs, wrong-typed arguments and signer faults: the call fails and the file is byte-identical"),
    _cfgunit.unit_under_config(PROPERTY, 'malformed', exclude=()),
]
