import os
import subprocess

from .exceptions import CommandError, KeyNotFoundError, PacketParsingError

GPG = os.environ.get("GNUPG", "gpg")


def _run(args, data=None, homedir=None):
    cmd = [GPG, "--batch", "--yes", "--no-tty"]
    if homedir:
        cmd += ["--homedir", homedir]
    p = subprocess.run(cmd + args, input=data, stdout=subprocess.PIPE, stderr=subprocess.PIPE, timeout=60)
    return p.returncode, p.stdout, p.stderr.decode("utf-8", "replace")


def _packets(data):
    """yield (tag, body) for each OpenPGP packet in data (old and new format headers)"""
    i = 0
    while i < len(data):
        ctb = data[i]
        if not ctb & 0x80:
            raise PacketParsingError("not an OpenPGP packet")
        i += 1
        if ctb & 0x40:      # new format
            tag = ctb & 0x3F
            o1 = data[i]
            if o1 < 192:
                ln, i = o1, i + 1
            elif o1 < 224:
                ln, i = ((o1 - 192) << 8) + data[i + 1] + 192, i + 2
            elif o1 == 255:
                ln, i = int.from_bytes(data[i + 1:i + 5], "big"), i + 5
            else:
                raise PacketParsingError("partial body lengths are not supported")
        else:
            tag = (ctb >> 2) & 0x0F
            lt = ctb & 3
            if lt == 3:
                ln = len(data) - i
            else:
                n = (1, 2, 4)[lt]
                ln, i = int.from_bytes(data[i:i + n], "big"), i + n
        yield tag, data[i:i + ln]
        i += ln


def _mpi(buf, i):
    bits = int.from_bytes(buf[i:i + 2], "big")
    n = (bits + 7) // 8
    return buf[i + 2:i + 2 + n], i + 2 + n


def _subpackets(area):
    i = 0
    while i < len(area):
        o1 = area[i]
        if o1 < 192:
            ln, i = o1, i + 1
        elif o1 < 255:
            ln, i = ((o1 - 192) << 8) + area[i + 1] + 192, i + 2
        else:
            ln, i = int.from_bytes(area[i + 1:i + 5], "big"), i + 5
        yield area[i] & 0x7F, area[i + 1:i + ln]
        i += ln


def parse_signature_packet(body):
    if body[0] != 4:
        raise PacketParsingError("only version 4 signatures are supported")
    pubalgo, hashalgo = body[2], body[3]
    hlen = int.from_bytes(body[4:6], "big")
    hashed_end = 6 + hlen
    other_headers = body[:hashed_end]
    ulen = int.from_bytes(body[hashed_end:hashed_end + 2], "big")
    i = hashed_end + 2 + ulen + 2          # unhashed area, left 16 bits of the hash
    if pubalgo != 22 or hashalgo != 8:
        raise PacketParsingError("expected EdDSA (22) with SHA-256 (8), got %d/%d" % (pubalgo, hashalgo))
    r, i = _mpi(body, i)
    s, i = _mpi(body, i)
    fpr = None
    for t, d in _subpackets(body[6:hashed_end]):
        if t == 33:
            fpr = d[1:].hex()
    return {"keyid": fpr, "other_headers": other_headers.hex(), "signature": (r.rjust(32, b"\x00") + s.rjust(32, b"\x00")).hex()}


def create_signature(content, keyid=None, homedir=None):
    args = ["--pinentry-mode", "loopback", "--passphrase", "", "--digest-algo", "SHA256", "--detach-sign"]
    if keyid:
        args = ["--local-user", keyid] + args
    rc, out, err = _run(args, data=bytes(content), homedir=homedir)
    if rc != 0:
        raise CommandError("gpg --detach-sign failed (%d): %s" % (rc, err[-300:]))
    for tag, body in _packets(out):
        if tag == 2:
            sig = parse_signature_packet(body)
            if keyid and sig["keyid"] is None:
                sig["keyid"] = keyid.lower()
            return sig
    raise PacketParsingError("no signature packet in gpg output")


def export_pubkey(keyid, homedir=None):
    rc, out, err = _run(["--export", keyid], homedir=homedir)
    if rc != 0 or not out:
        raise KeyNotFoundError("No key found for %r: %s" % (keyid, err[-200:]))
    want = keyid.lower()
    for tag, body in _packets(out):
        if tag in (6, 14):
            if body[0] != 4 or body[5] != 22:
                continue
            i = 6
            oid_len = body[i]
            i += 1 + oid_len
            q, i = _mpi(body, i)
            if q[:1] != b"\x40" or len(q) != 33:
                raise PacketParsingError("unexpected EdDSA point encoding")
            import hashlib
            fpr = hashlib.sha1(b"\x99" + len(body).to_bytes(2, "big") + body).hexdigest()
            if want not in (fpr, fpr[-16:], fpr[-8:]):
                continue
            return {"type": "eddsa", "method": "pgp+eddsa-ed25519", "hashes": ["pgp+SHA2"], "keyid": fpr,
                    "creation_time": int.from_bytes(body[1:5], "big"),
                    "keyval": {"private": "", "public": {"q": q[1:].hex()}}}
    raise KeyNotFoundError("No ed25519 key with fingerprint %r in gpg's export" % keyid)
