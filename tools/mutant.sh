#!/bin/bash
# tools/mutant.sh <patch-file> <Cxx> [Cxx...]  [-- extra vcheck args]
# Sensitivity protocol: apply a patch to a scratch copy of /repo (never to /repo), confirm the
# repository's own baseline tests still pass there, run the named quick checks against the copy
# (expect exit 1), delete the copy.
set -u
PATCH=$(readlink -f "$1"); shift
HERE=$(cd "$(dirname "$0")/.." && pwd)
SCR=$(mktemp -d /tmp/mutant.XXXXXX)
trap 'rm -rf "$SCR"' EXIT
rsync -a --exclude .git --exclude __pycache__ --exclude htmlcov /repo/ "$SCR/repo/"
if ! (cd "$SCR/repo" && patch -p1 -s < "$PATCH"); then echo "PATCH-FAILED $PATCH"; exit 3; fi
if [ "${SKIP_TESTS:-0}" != 1 ]; then
  (cd "$SCR/repo" && PYTHONPATH="$SCR/repo" /venv/bin/python -m pytest -q -p no:cacheprovider -o addopts="" \
      --junitxml="$SCR/junit.xml" >"$SCR/pytest.log" 2>&1)
  /venv/bin/python - "$SCR/junit.xml" <<'PY'
import json, sys, xml.etree.ElementTree as ET
b = json.load(open('/root/.vp/BASELINE.json'))
res = {}
for tc in ET.parse(sys.argv[1]).iter('testcase'):
    bad = [c.tag for c in tc if c.tag in ('failure', 'error', 'skipped')]
    res[tc.get('classname') + '::' + tc.get('name')] = not bad
missing = [n for n in b['stable_pass'] if not res.get(n)]
print("baseline-tests: %d/%d pass%s" % (len(b['stable_pass']) - len(missing), len(b['stable_pass']),
      "" if not missing else "  FAILING: %s" % missing))
PY
fi
for P in "$@"; do
  out=$(cd "$HERE" && VERIF_REPO="$SCR/repo" VERIF_OUT_DIR="$SCR/out" ./vcheck "$P" ${VCHECK_ARGS:-} 2>&1)
  rc=$?
  if [ $rc -eq 1 ]; then echo "KILLED   $P  $(basename "$PATCH")  :: $(echo "$out" | grep -m1 'violation:' | cut -c1-220)";
  elif [ $rc -eq 0 ]; then echo "SURVIVED $P  $(basename "$PATCH")";
  else echo "ERROR($rc) $P $(basename "$PATCH")"; echo "$out" | tail -15; fi
done
