"""C13 - failures are fail-closed and use the documented error families."""
import copy
import os
import traceback

import cryptography.exceptions
from hypothesis import strategies as st

from conda_content_trust import authentication as A, common as C

from props import C03
from vlib import fuzz as FZ, gen_deleg, gen_envelope as GE, gen_json as G, gen_metadata as GM, gen_mutate as MU, \
    gen_pyvalues as GP, keys, ref_openpgp, ref_schema, ref_verify as RV
from vlib.ref_canon import canon
from vlib import cfgunit as _cfgunit
from vlib.runner import REPO, Unit, Violation
from vlib import threaded as _threaded
from vlib import interfere as _interfere, interrupt as _interrupt

PROPERTY = "C13"
LEVEL = "exploration"
RULE = ("(a) each of the 24 public validators of common.py x Python values of every kind (scalars incl. inf/nan/huge, "
        "str/bytes/bytearray/memoryview, containers incl. non-str keys, sets, tuples, key objects, timedelta, opaque "
        "objects); (b) each of the 5 verifiers x each argument position replaced by such a value while the other "
        "arguments are valid; (c) each verifier x each structured argument (trusted root, successor root, key_mgr, raw- "
        "and OpenPGP-signed envelopes, authorized list, signature entry) with one or two mutations from the mutation "
        "engine at any JSON path; (d) error-class mapping on otherwise well-formed arguments against the reference "
        "rules (insufficient signatures -> SignatureError, undelegated role -> UnknownRoleError, version / type-for-role "
        "mismatch -> MetadataVerificationError); (e) coverage-guided atheris campaign with the same oracle in-target. "
        "Oracle: outcome is a normal return or an exception from {CCT_Error subclasses, TypeError, ValueError} (+ "
        "InvalidSignature for verify_signature / verify_gpg_signature). Escapes are bucketed by (exception type, "
        "innermost repository function). Non-trivial = the call reached a rejection or acceptance on a mutated / "
        "non-default argument; distinct = SHA-256 of the case.")
ASSUMPTIONS = ["nesting depth bounded well below the recursion limit (generators stop at depth ~12)",
               "termination is observed by a per-shard watchdog only; a time-out is reported as inconclusive",
               "objects with hostile dunder methods are out of scope"]

FAMILY = (C.CCT_Error, TypeError, ValueError)
PRIMITIVE_FAMILY = FAMILY + (cryptography.exceptions.InvalidSignature,)
PKG = os.path.join(os.path.realpath(REPO), "conda_content_trust") + os.sep


def innermost_repo_frame(exc):
    name = "?"
    for fs in traceback.extract_tb(exc.__traceback__):
        if os.path.realpath(fs.filename).startswith(PKG):
            name = "%s:%s" % (os.path.basename(fs.filename), fs.name)
    return name


def guarded(fname, f, args, kwargs=None, family=FAMILY):
    """Call f; return 'accept' or the exception class name; escapes from the family are violations."""
    try:
        f(*args, **(kwargs or {}))
        return "accept"
    except family as e:
        return type(e).__name__
    except RecursionError:
        return "RecursionError(out of scope)"
    except Exception as e:
        where = innermost_repo_frame(e)
        raise Violation("%s raised %s (%s) at %s; documented families are the library's errors, TypeError, ValueError"
                        % (fname, type(e).__name__, str(e)[:100], where),
                        bucket="escape %s at %s" % (type(e).__name__, where))


VALIDATORS = ["checkformat_string", "is_hex_string", "checkformat_hex_string", "is_hex_signature", "is_hex_key",
              "checkformat_hex_key", "checkformat_list_of_hex_keys", "is_signable", "checkformat_signable",
              "checkformat_byteslike", "checkformat_natural_int", "checkformat_expiration_distance",
              "checkformat_utc_isoformat", "is_gpg_fingerprint", "checkformat_gpg_fingerprint", "is_gpg_signature",
              "checkformat_gpg_signature", "is_signature", "checkformat_signature", "checkformat_any_signature",
              "checkformat_delegation", "checkformat_delegations", "checkformat_delegating_metadata", "checkformat_key"]


def check_validators(case):
    labs = set()
    for name in VALIDATORS:
        v = GP.realize(case["v"])
        o = guarded(name, getattr(C, name), (v,))
        labs.add(o if o in ("accept", "TypeError", "ValueError") else "other")
    return {"nontrivial": True, "labels": sorted(labs) + ["type=" + type(GP.realize(case["v"])).__name__],
            "count": {"validator_calls": len(VALIDATORS)}}


# ---- valid argument sets for the five verifiers ---------------------------------------------------------------------

def _fixture():
    s = keys.POOL[:4]
    pubs = [keys.pub_hex(x) for x in s]
    T = GM.wrap(GM.signed_part("root", {"root": {"pubkeys": pubs[:3], "threshold": 2},
                                        "key_mgr": {"pubkeys": pubs[3:], "threshold": 1}}, version=4))
    GM.sign_envelope(T, s[:2], True)
    N = GM.wrap(GM.signed_part("root", {"root": {"pubkeys": pubs[1:4], "threshold": 2},
                                        "key_mgr": {"pubkeys": pubs[:1], "threshold": 1}}, version=5))
    GM.sign_envelope(N, s[1:3], True)
    K = GM.wrap(GM.signed_part("key_mgr", {"pkg_mgr": {"pubkeys": pubs[:2], "threshold": 1}}, version=None,
                               timestamp="2024-05-05T05:05:05Z"))
    GM.sign_envelope(K, [s[0], s[3]], False)
    P = GM.wrap({"name": "pkg", "version": "1.0", "build_number": 0, "depends": ["a >=1"]})
    GM.sign_envelope(P, s[:1], False)
    return {"T": T, "N": N, "K": K, "P": P, "pubs": pubs,
            "raw_sig": P["signatures"][pubs[0]]["signature"], "gpg_entry": N["signatures"][pubs[1]],
            "payload": canon(N["signed"])}


_FX = None


def fx():
    global _FX
    if _FX is None:
        _FX = _fixture()
    return copy.deepcopy(_FX)


# verifier name -> (callable, list of (argname, getter of the valid value), family)
def _calls():
    f = fx()
    pk = C.PublicKey.from_hex(f["pubs"][0])
    return {
        "verify_root": (A.verify_root, [("trusted", f["T"]), ("untrusted", f["N"])], FAMILY),
        "verify_delegation/root->key_mgr": (A.verify_delegation, [("role", "key_mgr"), ("untrusted", f["K"]), ("trusted", f["N"]),
                                                                  ("gpg", False)], FAMILY),
        "verify_delegation/key_mgr->pkg": (A.verify_delegation, [("role", "pkg_mgr"), ("untrusted", f["P"]), ("trusted", f["K"]),
                                                                 ("gpg", False)], FAMILY),
        "verify_delegation/gpg": (A.verify_delegation, [("role", "root"), ("untrusted", f["N"]), ("trusted", f["T"]),
                                                        ("gpg", True)], FAMILY),
        "verify_signable/raw": (A.verify_signable, [("signable", f["P"]), ("authorized", f["pubs"][:2]), ("threshold", 1),
                                                    ("gpg", False)], FAMILY),
        "verify_signable/gpg": (A.verify_signable, [("signable", f["N"]), ("authorized", f["pubs"][:3]), ("threshold", 2),
                                                    ("gpg", True)], FAMILY),
        "verify_signature": (A.verify_signature, [("signature", f["raw_sig"]), ("public_key", pk),
                                                  ("data", canon(f["P"]["signed"]))], PRIMITIVE_FAMILY),
        "verify_gpg_signature": (A.verify_gpg_signature, [("signature", f["gpg_entry"]), ("key_value", f["pubs"][1]),
                                                          ("data", f["payload"])], PRIMITIVE_FAMILY),
    }


CALL_NAMES = ["verify_root", "verify_delegation/root->key_mgr", "verify_delegation/key_mgr->pkg", "verify_delegation/gpg",
              "verify_signable/raw", "verify_signable/gpg", "verify_signature", "verify_gpg_signature"]


def enum_sanity(tier):
    for name in CALL_NAMES:
        yield {"call": name}


def check_sanity(case):
    """The eight reference calls with their valid argument sets are accepted (everything else is derived from them)."""
    _prime_other_uses()
    f, args, fam = _calls()[case["call"]]
    o = guarded(case["call"], f, [a for _, a in args], family=fam)
    if o != "accept":
        raise Violation("the valid reference arguments of %s are rejected: %s" % (case["call"], o),
                        bucket="reference call rejected " + case["call"])
    return {"nontrivial": True, "labels": [case["call"]]}


def check_positions(case):
    """One argument position replaced by an arbitrary Python value."""
    _prime_other_uses()
    calls = _calls()
    f, args, fam = calls[case["call"]]
    i = case["pos"] % len(args)
    vals = [a for _, a in args]
    vals[i] = GP.realize(case["v"])
    o = guarded("%s[%s := %s]" % (case["call"], args[i][0], type(vals[i]).__name__), f, vals, family=fam)
    return {"nontrivial": True, "labels": [case["call"].split("/")[0], "arg=" + args[i][0], "out=" + o]}


def _prime_other_uses():
    """History: the same hex values have been used as PRIVATE keys earlier in this process (any 64 hex characters are a valid
    seed), e.g. by a signing step; the verifiers must still treat them as public keys."""
    for k in fx()["pubs"]:
        C.PrivateKey.from_hex(k)
        C.PublicKey.from_hex(k)


def check_mutations(case):
    """One structured argument with 1-2 path mutations."""
    _prime_other_uses()
    calls = _calls()
    f, args, fam = calls[case["call"]]
    structured = [i for i, (n, a) in enumerate(args) if isinstance(a, (dict, list))]
    if not structured:
        return {"nontrivial": False, "labels": ["no-structured-arg"]}
    i = structured[case["pos"] % len(structured)]
    vals = [a for _, a in args]
    doc = vals[i]
    applied = []
    for m in case["muts"]:
        ps = list(G.paths(doc))
        mut = {"path": list(ps[m["p"] % len(ps)]), "op": MU.OPS[m["o"] % len(MU.OPS)]}
        r = MU.apply(doc, mut)
        if r is MU.INAPPLICABLE:
            mut = {"path": mut["path"], "op": "replace:%d" % (m["o"] % len(MU.REPLACEMENTS))}
            r = MU.apply(doc, mut)
        doc = r
        applied.append(mut)
        if not isinstance(doc, (dict, list)):
            break
    vals[i] = doc
    o = guarded("%s[%s mutated by %s]" % (case["call"], args[i][0], applied), f, vals, family=fam)
    return {"nontrivial": True, "labels": [case["call"].split("/")[0], "arg=" + args[i][0], "out=" + o,
                                           MU.op_kind(applied[-1]["op"])]}


def enum_single(tier):
    """The complete single-mutation neighbourhood of every structured argument of every call."""
    for name, (f, args, fam) in _calls().items():
        for i, (an, a) in enumerate(args):
            if isinstance(a, (dict, list)):
                for path in G.paths(a):
                    yield {"call": name, "arg": i, "path": list(path)}


def check_single(case):
    calls = _calls()
    f, args, fam = calls[case["call"]]
    n = 0
    outs = set()
    for op in MU.OPS:
        vals = [a for _, a in _calls()[case["call"]][1]]
        r = MU.apply(vals[case["arg"]], {"path": case["path"], "op": op})
        if r is MU.INAPPLICABLE:
            continue
        vals[case["arg"]] = r
        o = guarded("%s[%s at %s %s]" % (case["call"], args[case["arg"]][0], case["path"], op), f, vals, family=fam)
        outs.add("out=" + o)
        n += 1
    return {"nontrivial": True, "labels": sorted(outs) + [case["call"].split("/")[0]], "count": {"calls": n}}


# ---- numeric fields: complete product over numeric kinds ----------------------------------------------------------------

NUMS = [1, 2, 3, 0, -1, True, False, 2.0, 3.0, 1.5, 1e300, float("inf"), float("-inf"), float("nan"), 2 ** 63, 10 ** 400, -(10 ** 400),
        10 ** 30, 1e22, "2", None]


def enum_numeric(tier):
    for i in range(len(NUMS)):
        for j in range(len(NUMS)):
            yield {"i": i, "j": j}


def check_numeric(case):
    """verify_root with every pair of numeric kinds as (trusted version, offered version), verify_root / verify_delegation
    with every pair as (threshold in the trusted root rule, threshold in the offered root rule), verify_signable thresholds."""
    a, b = NUMS[case["i"]], NUMS[case["j"]]
    outs = set()
    f = fx()
    T, N = f["T"], f["N"]
    T["signed"]["version"], N["signed"]["version"] = a, b
    outs.add(guarded("verify_root[versions %r, %r]" % (a, b), A.verify_root, (T, N)))
    f = fx()
    T, N = f["T"], f["N"]
    T["signed"]["delegations"]["root"]["threshold"], N["signed"]["delegations"]["root"]["threshold"] = a, b
    outs.add(guarded("verify_root[root thresholds %r, %r]" % (a, b), A.verify_root, (T, N)))
    outs.add(guarded("verify_delegation[threshold %r]" % (a,), A.verify_delegation, ("root", N, T), {"gpg": True}))
    f = fx()
    outs.add(guarded("verify_signable[threshold %r]" % (a,), A.verify_signable, (f["P"], f["pubs"][:2], a)))
    f = fx()
    K = f["K"]
    K["signed"]["version"] = a
    K["signed"]["delegations"]["pkg_mgr"]["threshold"] = b
    outs.add(guarded("verify_delegation[key_mgr version %r, pkg_mgr threshold %r]" % (a, b), A.verify_delegation, ("pkg_mgr", f["P"], K)))
    outs.add(guarded("checkformat_delegating_metadata", C.checkformat_delegating_metadata, (K,)))
    return {"nontrivial": True, "labels": sorted("out=" + o for o in outs), "count": {"calls": 6}}


# ---- histories: the same argument object changed in place between two calls -------------------------------------------

def check_inplace(case):
    calls = _calls()
    f, args, fam = calls[case["call"]]
    structured = [i for i, (n, a) in enumerate(args) if isinstance(a, dict)]
    if not structured:
        return {"nontrivial": False, "labels": ["no-structured-arg"]}
    i = structured[case["pos"] % len(structured)]
    vals = [a for _, a in args]
    o1 = guarded(case["call"], f, vals, family=fam)          # valid arguments first
    doc = vals[i]
    ps = list(G.paths(doc))
    m = case["muts"][0]
    mut = {"path": list(ps[m["p"] % len(ps)]), "op": MU.OPS[m["o"] % len(MU.OPS)]}
    r = MU.apply(doc, mut)
    if r is MU.INAPPLICABLE:
        mut = {"path": mut["path"], "op": "replace:%d" % (m["o"] % len(MU.REPLACEMENTS))}
        r = MU.apply(doc, mut)
    if not isinstance(r, dict):
        return {"nontrivial": False, "labels": ["root-replaced"]}
    doc.clear()
    doc.update(r)                                             # the SAME object, now mutated
    o2 = guarded("%s[second call; the SAME %s object was changed in place by %s after a first, valid call]"
                 % (case["call"], args[i][0], mut), f, vals, family=fam)
    fresh = [a for _, a in _calls()[case["call"]][1]]
    fresh[i] = copy.deepcopy(r)
    o3 = guarded(case["call"] + "[fresh equal copy]", f, fresh, family=fam)
    if o2 != o3:
        raise Violation("%s: an argument changed in place after an earlier call gives %s, an equal fresh copy gives %s (%s)"
                        % (case["call"], o2, o3, mut), bucket="verdict depends on object identity/history")
    return {"nontrivial": True, "labels": [case["call"].split("/")[0], "arg=" + args[i][0], "second=" + o2]}


# ---- error-class mapping -------------------------------------------------------------------------------------------------

def check_mapping_root(case):
    T, N = case["T"], case["N"]
    expect = RV.root_update(T, N)
    o = guarded("verify_root", A.verify_root, (copy.deepcopy(T), copy.deepcopy(N)))
    if expect.kind == "reject" and o == "accept":
        raise Violation("verify_root returned normally although the reference rejects (%s): nothing was reported, the documented class is %s"
                        % (expect.why, sorted(expect.classes)), bucket="rejection not reported verify_root")
    if expect.kind == "reject" and o not in expect.classes:
        raise Violation("verify_root reported %s where the documented class is %s (%s)" % (o, sorted(expect.classes), expect.why),
                        bucket="wrong error class verify_root %s" % o)
    return {"nontrivial": expect.kind == "reject", "labels": ["out=" + o, "flaw=" + case["flaw"]]}


def check_mapping_delegation(case):
    expect = RV.delegation(case["role"], case["U"], case["T"], case["gpg"])
    o = guarded("verify_delegation", A.verify_delegation, (case["role"], copy.deepcopy(case["U"]), copy.deepcopy(case["T"])),
                {"gpg": case["gpg"]})
    if expect.kind == "reject" and o == "accept":
        raise Violation("verify_delegation returned normally although the reference rejects (%s): nothing was reported, the documented class is %s"
                        % (expect.why, sorted(expect.classes)), bucket="rejection not reported verify_delegation")
    if expect.kind == "reject" and o not in expect.classes:
        raise Violation("verify_delegation reported %s where the documented class is %s (%s)" % (o, sorted(expect.classes), expect.why),
                        bucket="wrong error class verify_delegation %s" % o)
    return {"nontrivial": expect.kind == "reject", "labels": ["out=" + o, "ask=" + case["ask_kind"]]}


def check_mapping_signable(case):
    env = GE.to_envelope(case)
    expect = RV.signable(env, case["authorized"], case["threshold"], case["gpg"])
    o = guarded("verify_signable", A.verify_signable, (env, case["authorized"], case["threshold"]), {"gpg": case["gpg"]})
    if expect.kind == "reject" and o == "accept":
        raise Violation("verify_signable returned normally although the reference rejects: nothing was reported, the documented class is %s"
                        % sorted(expect.classes), bucket="rejection not reported verify_signable")
    if expect.kind == "reject" and o not in expect.classes:
        raise Violation("verify_signable reported %s where the documented class is %s" % (o, sorted(expect.classes)),
                        bucket="wrong error class verify_signable %s" % o)
    return {"nontrivial": expect.kind == "reject", "labels": ["out=" + o]}


# ---- coverage-guided tier ---------------------------------------------------------------------------------------------------

def check_fuzz(case):
    return FZ.run_campaign("fuzz_verifiers", case, PROPERTY)



_values = st.one_of(GP.scalars, GP.scalars, GP.python_values, G.json_values(8))
_muts = st.lists(st.fixed_dictionaries({"p": st.integers(0, 10 ** 6), "o": st.integers(0, 10 ** 6)}), min_size=1, max_size=2)

def _interrupted_sweep_cases():
    from props import C12
    return C12._sweep_cases().map(lambda c: dict(c, kind=c["kind"] if c["kind"] != "valid" else "unauthorized"))


def check_interrupted_sweep(case):
    """fail-closed under faults: an exception of any class (OSError from print on a dead pipe, KeyboardInterrupt, MemoryError,
    KeyError ...) raised at any line or C call inside a verification of a must-reject envelope never ends in acceptance, and
    neither does a standard output that fails"""
    from props import C12
    return C12.check_fault_sweep(case)


UNITS = [
    Unit("interrupted_sweep", check_interrupted_sweep, strategy=_interrupted_sweep_cases, quick=18, thorough=500, shards_quick=3,
         doc="must-reject envelopes: every line event and every C-level call of one verification interrupted once by exceptions of "
             "rotating classes, and standard output failing in five ways: never an acceptance, and the retry is rejected too"),
    Unit("reference_calls", check_sanity, enumerate=enum_sanity, exhaustive=True, shards_quick=1, shards_thorough=1,
         doc="the eight reference calls (valid argument sets) return"),
    Unit("validators", check_validators, strategy=lambda: st.builds(lambda v: {"v": v}, _values), quick=2500, thorough=80000,
         doc="24 validators x Python values: return or TypeError/ValueError"),
    Unit("positions", check_positions, strategy=lambda: st.fixed_dictionaries(
        {"call": st.sampled_from(CALL_NAMES), "pos": st.integers(0, 3), "v": _values}), quick=3000, thorough=100000,
        doc="each verifier, each argument position replaced by an arbitrary Python value"),
    Unit("mutations", check_mutations, strategy=lambda: st.fixed_dictionaries(
        {"call": st.sampled_from(CALL_NAMES), "pos": st.integers(0, 3), "muts": _muts}), quick=4000, thorough=150000,
        doc="each verifier, each structured argument, 1-2 path mutations"),
    Unit("single", check_single, enumerate=enum_single, exhaustive=True, shards_quick=16,
         doc="complete single-mutation neighbourhood of every structured argument of the 8 reference calls"),
    Unit("numeric", check_numeric, enumerate=enum_numeric, exhaustive=True, shards_quick=8,
         doc="complete product of 21 numeric kinds x 21 for version/version and threshold/threshold pairs"),
    Unit("inplace", check_inplace, strategy=lambda: st.fixed_dictionaries(
        {"call": st.sampled_from(CALL_NAMES[:6]), "pos": st.integers(0, 3), "muts": _muts}), quick=1500, thorough=50000,
        doc="valid call, then the same argument object mutated in place, then the call again: family, and same outcome as a fresh copy"),
    Unit("map_root", check_mapping_root, strategy=C03.root_pairs, quick=600, thorough=20000,
         doc="verify_root error class == documented class for the failing conjunct"),
    Unit("map_delegation", check_mapping_delegation, strategy=gen_deleg.delegation_cases, quick=600, thorough=20000,
         doc="verify_delegation error class == documented class"),
    Unit("map_signable", check_mapping_signable, strategy=GE.envelopes, quick=600, thorough=20000,
         doc="verify_signable: SignatureError when too few valid signatures on well-formed arguments"),
    Unit("fuzz", check_fuzz, enumerate=lambda tier: FZ.campaigns(tier, "C13"), shards_quick=4, shards_thorough=16,
         doc="atheris (libFuzzer) coverage-guided campaign: bytes -> JSON -> verifiers, same oracle in-target"),
    _cfgunit.unit_under_config(PROPERTY, 'mutations', exclude=(), n_cases=20),
    _cfgunit.unit_under_config(PROPERTY, 'positions', exclude=(), n_cases=20),
    _interfere.unit_after(PROPERTY, 'mutations', quick=150, thorough=6000),
    _interrupt.unit_interrupted(PROPERTY, 'mutations', quick=18, thorough=450, max_points=150),
    _threaded.unit_threads(PROPERTY),
]
