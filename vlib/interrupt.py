"""Interruption sweep over a whole unit's oracle.

unit_interrupted(prop, unit) builds a Unit that takes the cases of an existing unit and, for each, runs that unit's check(case)
once per library line event (and once per C-level call made by library code) with an exception injected at that point - classes
rotate over faults.FAULT_CLASSES (KeyboardInterrupt, MemoryError, OSError, KeyError ...; never the validators' own ValueError /
TypeError) - ignores whatever the interrupted run reports, and then runs check(case) again normally: the unit's own oracle must
hold after every interruption.  Before every interrupted run the library's module-level state is put back to what it was when
the sweep started (containers emptied / refilled in place, functools caches cleared), so that each interruption meets the state
a fresh process would have - a verdict memo that earlier complete runs have already filled with right answers would otherwise
hide what an interruption of the FIRST evaluation leaves behind.

This is how "a fault at the wrong moment poisons a cache / leaves half-updated state that later calls trust" becomes a generated
check for code that has no file to inspect."""
import copy
import os
import sys

from . import faults
from .runner import REPO, Inconclusive, Unit, Violation, _load_module

PKG = os.path.join(os.path.realpath(REPO), "conda_content_trust") + os.sep


def _containers():
    out, caches = [], []
    seen = set()

    def consider(v):
        if id(v) in seen:
            return
        if isinstance(v, (dict, list, set, bytearray)):
            seen.add(id(v))
            try:
                content = copy.deepcopy(v)
            except Exception:       # noqa: BLE001
                content = copy.copy(v)
            out.append((v, content))
        elif hasattr(v, "cache_clear") and callable(getattr(v, "cache_clear", None)):
            seen.add(id(v))
            caches.append(v)

    for name, m in list(sys.modules.items()):
        if m is None or not (name == "conda_content_trust" or name.startswith("conda_content_trust.")):
            continue
        for k, v in list(vars(m).items()):
            if k.startswith("__"):
                continue
            consider(v)
            if isinstance(v, type) and getattr(v, "__module__", "").startswith("conda_content_trust"):
                for klass in v.__mro__:
                    if getattr(klass, "__module__", "").startswith("conda_content_trust"):
                        for ck, cv in list(vars(klass).items()):
                            if not ck.startswith("__"):
                                consider(cv)
                                f = getattr(cv, "__func__", cv)
                                if hasattr(f, "cache_clear"):
                                    consider(f)
            if callable(v) and hasattr(v, "__dict__") and getattr(v, "__module__", "") and str(getattr(v, "__module__", "")).startswith("conda_content_trust"):
                for fv in list(vars(v).values()):      # function attributes used as memo
                    consider(fv)
    return out, caches


def library_state():
    """returns restore(): puts every module-level / class-level / function-attribute container of the library back to its
    present content (in place) and clears functools caches"""
    saved, caches = _containers()

    def restore():
        for obj, content in saved:
            if isinstance(obj, dict):
                obj.clear()
                obj.update(copy.deepcopy(content))
            elif isinstance(obj, list):
                obj[:] = copy.deepcopy(content)
            elif isinstance(obj, set):
                obj.clear()
                obj.update(content)
            elif isinstance(obj, bytearray):
                obj[:] = content
        for c in caches:
            c.cache_clear()
        # containers that did not exist when the snapshot was taken (a memo created lazily): empty them
        now, now_caches = _containers()
        known = {id(o) for o, _ in saved}
        for obj, _ in now:
            if id(obj) not in known and isinstance(obj, (dict, set, list)):
                obj.clear()
        for c in now_caches:
            c.cache_clear()
    return restore


def sweep_check(check, case, max_points=250, offset=0, grans=("line", "ccall")):
    """-> number of interruptions; raises Violation if check(case) fails after one of them"""
    restore = library_state()
    n = 0
    try:
        for gran in grans:
            ref = faults.run(lambda: check(copy.deepcopy(case)), PKG, "/nonexistent-target", granularity=gran)
            if ref.outcome != "return":
                if isinstance(ref.exc, Violation):
                    raise ref.exc
                raise Inconclusive("base check failed without any fault: %s %s" % (ref.outcome, ref.exc))
            N = ref.events
            stride = max(1, N // max_points)
            rot = faults.rotating(offset)
            k = 1 + (offset % stride)
            while k <= N:
                restore()
                tr = faults.run(lambda: check(copy.deepcopy(case)), PKG, "/nonexistent-target", fault_at=k, granularity=gran,
                                fault_base=rot(k))
                where = str(tr.exc)[:160] if tr.outcome == "InjectedFault" else "%s fault %d of %d (%s), surfaced as %s" % (
                    gran, k, N, getattr(rot(k), "__name__", "Exception"), tr.outcome)
                tr.exc = None
                if not tr.fired:
                    break
                n += 1
                try:
                    check(copy.deepcopy(case))
                except Violation as v:
                    raise Violation("after an interrupted evaluation [%s] the same input evaluated normally: %s" % (where, v.args[0]),
                                    bucket="state left behind by an interrupted call: " + (getattr(v, "bucket", "") or "")[:60])
                k += stride
    finally:
        restore()
    return n


def unit_interrupted(prop, unit_name, quick=12, thorough=300, max_points=250, doc=None, shards_quick=6, map_case=None, filter_case=None):
    from hypothesis import strategies as st

    def strategy():
        mod = _load_module(prop)
        base = next(u for u in mod.UNITS if u.name == unit_name)
        s = base.strategy()
        if map_case is not None:
            s = s.map(map_case)
        if filter_case is not None:
            s = s.filter(filter_case)       # (only to keep the deliberately huge cases of the base unit out of a quadratic sweep)
        return st.fixed_dictionaries({"case": s, "offset": st.integers(0, 10 ** 6)})

    def check(case):
        mod = _load_module(prop)
        base = next(u for u in mod.UNITS if u.name == unit_name)
        n = sweep_check(base.check, case["case"], max_points=max_points, offset=case["offset"])
        return {"nontrivial": n > 0, "labels": ["interruptions=%d+" % (50 * (n // 50))], "count": {"interruptions": n}}

    return Unit("interrupted_" + unit_name, check, strategy=strategy, quick=quick, thorough=thorough, shards_quick=shards_quick, shrink=False,
                doc=doc or ("the oracle of unit %r after each interruption: check(case) run once per library line event / C-level call "
                            "with an exception of a rotating class injected there (module state reset before each), then run normally"
                            % unit_name))
