"""What else a long-running process does with the library between two calls we look at: other public API entry points, the
command-line front end called in-process (succeeding and failing), signing, building.  A stateless library gives the same
answers afterwards.

actions()           names of the actions
run(name)           performs one (never raises: an action's own outcome is not the subject)
unit_after(prop, unit)  a Unit: a drawn sequence of actions, then the existing unit's check(case) - its own oracle must hold
"""
import builtins
import contextlib
import copy
import io
import json
import os
import shutil
import sys
import tempfile

from . import keys
from .runner import REPO, Unit, _load_module


def _cli(argv, inputs=()):
    from conda_content_trust import cli as CLI
    feed = iter(inputs)
    real = builtins.input

    def fake(prompt=""):
        try:
            return next(feed)
        except StopIteration:
            raise EOFError
    builtins.input = fake
    out = io.StringIO()
    try:
        with contextlib.redirect_stdout(out), contextlib.redirect_stderr(io.StringIO()):
            try:
                return CLI.cli(argv)
            except (SystemExit, EOFError, Exception):       # noqa: BLE001 - interference only
                return None
    finally:
        builtins.input = real


def _td(name):
    return os.path.join(REPO, "tests", "testdata", name)


def _with_tmp(f):
    d = tempfile.mkdtemp(prefix="intf-")
    try:
        return f(d)
    finally:
        shutil.rmtree(d, ignore_errors=True)


def _sign_artifacts(d, keyhex):
    fn = os.path.join(d, "repodata.json")
    shutil.copy(_td("repodata_short_signed_sample.json"), fn)
    kf = os.path.join(d, "key.hex")
    with open(kf, "w") as f:
        f.write(keyhex + "\n")
    return _cli(["sign-artifacts", fn, kf])


def _lib(which):
    from conda_content_trust import authentication as A, common as C, metadata_construction as MC, signing as S
    pub = keys.pub_hex(keys.POOL[0])
    md = {"signatures": {}, "signed": MC.build_root_metadata(3, [pub], 1, [pub], 1, "2024-01-01T00:00:00Z", "2034-01-01T00:00:00Z")}
    if which == "build":
        MC.build_delegating_metadata("key_mgr", {"pkg_mgr": {"pubkeys": [pub], "threshold": 1}})
        MC.build_delegating_metadata("key_mgr")
    elif which == "sign":
        S.sign_signable(copy.deepcopy(md), C.PrivateKey.from_bytes(keys.POOL[1]))
    elif which == "verify-fail":
        A.verify_delegation("key_mgr", copy.deepcopy(md), copy.deepcopy(md))
    elif which == "verify-root-fail":
        A.verify_root(C.load_metadata_from_file(_td("1.root.json")), C.load_metadata_from_file(_td("3.root.json")))
    elif which == "verify-root-ok":
        A.verify_root(C.load_metadata_from_file(_td("1.root.json")), C.load_metadata_from_file(_td("2.root.json")))
    elif which == "checkformat":
        C.checkformat_delegating_metadata(copy.deepcopy(md))
        C.checkformat_delegating_metadata({"signatures": {}, "signed": dict(md["signed"], type="pkg_mgr")})
    elif which == "keys-both-roles":
        for s in keys.POOL[:4]:
            for h in (s.hex(), keys.pub_hex(s)):
                C.PrivateKey.from_hex(h)
                C.PublicKey.from_hex(h)
    elif which == "bad-inputs":
        for f in (C.checkformat_hex_key, C.checkformat_gpg_fingerprint, C.checkformat_signature, C.checkformat_utc_isoformat,
                  C.checkformat_natural_int, C.checkformat_delegation, C.checkformat_delegating_metadata):
            for v in ("AB" * 32, "ab" * 20, "ab" * 32, {"signature": "AB" * 64}, "2020-01-01T00:00:00Z\n", 0, 1.5, None, [], {}):
                try:
                    f(v)
                except Exception:       # noqa: BLE001
                    pass


ACTIONS = {
    "cli-parser": lambda: _cli(["--help"]),
    "cli-verify-root-ok": lambda: _cli(["verify-metadata", _td("1.root.json"), _td("2.root.json")]),
    "cli-verify-root-skipped-version": lambda: _cli(["verify-metadata", _td("1.root.json"), _td("3.root.json")]),
    "cli-verify-root-rollback": lambda: _cli(["verify-metadata", _td("2.root.json"), _td("1.root.json")]),
    "cli-verify-key_mgr-ok": lambda: _cli(["verify-metadata", _td("2.root.json"), _td("key_mgr.json")]),
    "cli-verify-key_mgr-fail": lambda: _cli(["verify-metadata", _td("1.root.json"), _td("key_mgr.json")]),
    "cli-verify-not-metadata": lambda: _cli(["verify-metadata", _td("repodata_sample.json"), _td("key_mgr.json")]),
    "cli-verify-missing-file": lambda: _cli(["verify-metadata", _td("1.root.json"), "/nonexistent/x.json"]),
    "cli-sign-artifacts-ok": lambda: _with_tmp(lambda d: _sign_artifacts(d, keys.POOL[0].hex())),
    "cli-sign-artifacts-bad-key": lambda: _with_tmp(lambda d: _sign_artifacts(d, "AB" * 32)),
    "cli-sign-artifacts-pubkey-as-private": lambda: _with_tmp(lambda d: _sign_artifacts(d, keys.pub_hex(keys.POOL[1]))),
    "cli-modify-quit": lambda: _with_tmp(lambda d: (shutil.copy(_td("2.root.json"), os.path.join(d, "r.json")),
                                                    _cli(["modify-metadata", os.path.join(d, "r.json")], ["1", "7", "root", "2", "1", "9"]))),
    "cli-modify-eof": lambda: _with_tmp(lambda d: (shutil.copy(_td("key_mgr.json"), os.path.join(d, "k.json")),
                                                   _cli(["modify-metadata", os.path.join(d, "k.json")], ["2", keys.POOL[0].hex(), "1"]))),
    "cli-gpg-lookup": lambda: _cli(["gpg-key-lookup", "f075dd2f6f4cb3bd76134bbb81b6ca16ef9cd589"]),
    "cli-gpg-sign-missing": lambda: _cli(["gpg-sign", "f075dd2f6f4cb3bd76134bbb81b6ca16ef9cd589", "/nonexistent/x.json"]),
    "lib-build": lambda: _lib("build"),
    "lib-sign": lambda: _lib("sign"),
    "lib-verify-fail": lambda: _lib("verify-fail"),
    "lib-verify-root-fail": lambda: _lib("verify-root-fail"),
    "lib-verify-root-ok": lambda: _lib("verify-root-ok"),
    "lib-checkformat": lambda: _lib("checkformat"),
    "lib-keys-both-roles": lambda: _lib("keys-both-roles"),
    "lib-bad-inputs": lambda: _lib("bad-inputs"),
}


def actions():
    return sorted(ACTIONS)


def run(name):
    old = sys.stdout
    try:
        with contextlib.redirect_stdout(io.StringIO()):
            ACTIONS[name]()
    except BaseException:       # noqa: BLE001 - interference only; its own outcome is other checks' business
        pass
    finally:
        sys.stdout = old


_PRISTINE = []


def unit_after(prop, unit_name, quick=60, thorough=3000, doc=None, shards_quick=6):
    from hypothesis import strategies as st

    def strategy():
        mod = _load_module(prop)
        base = next(u for u in mod.UNITS if u.name == unit_name)
        # a history = the first k actions of a drawn order, k uniform in 1..all: any given action is in two histories out of three
        before = st.builds(lambda order, k: list(order)[:k], st.permutations(actions()), st.integers(1, len(ACTIONS)))
        return st.fixed_dictionaries({"case": base.strategy(), "before": before})

    def check(case):
        mod = _load_module(prop)
        base = next(u for u in mod.UNITS if u.name == unit_name)
        from .runner import Violation
        from . import interrupt
        if not _PRISTINE:
            _PRISTINE.append(interrupt.library_state())       # first case of this process: the state right after import
        _PRISTINE[0]()                                        # every case starts from it, so that its own history explains it
        for a in case["before"]:
            run(a)
        try:
            info = base.check(case["case"]) or {}
        except Violation as v:
            # does it hold without the history?  (a fresh evaluation in this same process cannot tell; the replay file can)
            raise Violation("after other API use in this process %r: %s" % (case["before"], v.args[0]),
                            bucket="after other API use: " + (getattr(v, "bucket", "") or "")[:60])
        return {"nontrivial": bool(info.get("nontrivial", True)), "labels": ["before=" + a.split("-")[0] + "-" + a.split("-")[1] for a in case["before"]][:3],
                "gray": bool(info.get("gray"))}

    return Unit("after_other_api_" + unit_name, check, strategy=strategy, quick=quick, thorough=thorough, shards_quick=shards_quick,
                doc=doc or ("the oracle of unit %r after a drawn sequence of other uses of the library in the same process (command-line "
                            "front end called in-process, succeeding and failing; signing; building; verification that fails; the same hex "
                            "strings used as private and as public keys; malformed inputs offered to the validators)" % unit_name))
