"""R5: OpenPGP (RFC 4880 v4) signature digest and a reference OpenPGP-mode signer.

digest = SHA-256(payload || hashed_headers || 0x04 0xFF || be32(len(hashed_headers)))
An entry is valid for a raw ed25519 public key q iff its 64-byte signature verifies over digest.
"""
import hashlib

from . import keys


def digest(payload, headers):
    n = len(headers)
    trailer = bytes([0x04, 0xFF, (n >> 24) & 0xFF, (n >> 16) & 0xFF, (n >> 8) & 0xFF, n & 0xFF])
    return hashlib.sha256(bytes(payload) + bytes(headers) + trailer).digest()


def default_headers(fingerprint_hex="f075dd2f6f4cb3bd76134bbb81b6ca16ef9cd589", t=0x5F0BF546):
    """Hashed area as GnuPG emits it for an EdDSA/SHA-256 binary signature: version 4, type 0x00,
    pubkey algo 22, hash algo 8, hashed subpackets = issuer fingerprint (33) + creation time (2)."""
    sub = bytes([0x16, 0x21, 0x04]) + bytes.fromhex(fingerprint_hex) + bytes([0x05, 0x02]) + t.to_bytes(4, "big")
    return bytes([0x04, 0x00, 0x16, 0x08]) + len(sub).to_bytes(2, "big") + sub


def rich_headers(fingerprint_hex, t, subpackets):
    """A well-formed v4 hashed area with further subpackets a real signer can emit; `subpackets` is a list of
    (type, critical, data bytes): 3 = signature expiration time, 9 = key expiration, 20 = notation data, 26 = policy URI,
    27 = key flags, 28 = signer's user id ...  Whatever they say, they are only bytes that go into the digest."""
    sub = bytes([0x16, 0x21, 0x04]) + bytes.fromhex(fingerprint_hex) + bytes([0x05, 0x02]) + t.to_bytes(4, "big")
    for typ, critical, data in subpackets:
        body = bytes([typ | (0x80 if critical else 0)]) + bytes(data)
        n = len(body)
        sub += (bytes([n]) if n < 192 else bytes([((n - 192) >> 8) + 192, (n - 192) & 0xFF]) if n < 8384 else b"\xff" + n.to_bytes(4, "big")) + body
    return bytes([0x04, 0x00, 0x16, 0x08]) + len(sub).to_bytes(2, "big") + sub


def entry(seed, payload, headers=None, see_also=None, signer=None):
    if headers is None:
        headers = default_headers()
    sig = (signer or keys.sign_raw)(seed, digest(payload, headers))
    e = {"other_headers": bytes(headers).hex(), "signature": sig.hex()}
    if see_also is not None:
        e["see_also"] = see_also
    return e


def valid(pub_hex, entry_, payload):
    """entry_ must already be a well-formed OpenPGP entry (ref_grammar.is_gpg_entry)."""
    h = bytes.fromhex(entry_["other_headers"])
    return keys.verify_raw(pub_hex, digest(payload, h), bytes.fromhex(entry_["signature"]))
