"""Generators of signed envelopes with adversarial signature maps.

A generated case is plain data:
  {"payload": <json>, "gpg": bool, "authorized": [hex...], "threshold": int,
   "sigs": [[map_key, entry_value, label], ...]}            (label = the generator's ground truth)
The oracles never trust the labels; they recompute everything from the concrete data.
"""
import json

from hypothesis import strategies as st

from . import gen_json as G, keys, ref_openpgp
from .ref_canon import canon

STATES = ["valid", "valid", "valid", "valid_nonce", "other_payload", "bitflip", "misfiled",
          "wrong_shape", "malformed", "upper_sig", "unauthorized", "absent", "variant_key",
          "variant_and_canonical"]

HEADERS = st.one_of(
    st.just(None),
    st.binary(min_size=1, max_size=40),
    st.builds(lambda fp, t: ref_openpgp.default_headers(fp.hex(), t), st.binary(min_size=20, max_size=20),
              st.integers(0, 2 ** 32 - 1)),
    st.sampled_from([1, 2, 255, 256, 257]).flatmap(lambda n: st.binary(min_size=n, max_size=n)),
    # hashed areas that say more than GnuPG's default: a signature expiration long past / far ahead / zero, a key expiration,
    # notation data, a policy URI, critical bits - none of it is the library's business (RFC 4880 5.2.3.x), only bytes to hash
    st.builds(lambda fp, t, subs: ref_openpgp.rich_headers(fp.hex(), t, subs), st.binary(min_size=20, max_size=20),
              st.sampled_from([0, 1, 0x5F0BF546, 2 ** 31 - 1, 2 ** 32 - 1]),
              st.lists(st.one_of(
                  st.tuples(st.just(3), st.booleans(), st.sampled_from([1, 60, 86400, 0, 2 ** 32 - 1]).map(lambda n: n.to_bytes(4, "big"))),
                  st.tuples(st.just(9), st.booleans(), st.sampled_from([1, 86400 * 365]).map(lambda n: n.to_bytes(4, "big"))),
                  st.tuples(st.sampled_from([20, 26, 27, 28, 100]), st.booleans(), st.binary(min_size=1, max_size=40))), min_size=1, max_size=3)),
    # long hashed areas (notation data, policy URLs): the two-octet subpacket length allows up to 65535 octets
    st.sampled_from([261, 262, 300, 1000, 5000, 65535]).flatmap(lambda n: st.binary(min_size=n, max_size=n)),
)


def key_variants(k):
    return [k.upper(), k[:10].upper() + k[10:], " " + k, k + " ", k + "\n", "0x" + k, k[:32] + " " + k[32:],
            k[:-1] + chr(0xFF10 + int(k[-1], 16) % 10), k + "\u00a0", k[:-2], k + "00", "\t" + k,
            k.replace("a", "A", 1) if "a" in k else k.upper(), k + "\x00", "\ufeff" + k]


def make_entry(draw, seed, payload_bytes, gpg, nonce=None):
    signer = keys.make_nonce_signer(nonce) if nonce is not None else keys.sign_raw
    if gpg:
        h = draw(HEADERS)
        e = ref_openpgp.entry(seed, payload_bytes, headers=h, signer=signer)
        if draw(st.integers(0, 4)) == 0:
            e["see_also"] = draw(st.binary(min_size=20, max_size=20)).hex()
        return e
    return {"signature": signer(seed, payload_bytes).hex()}


JUNK_VALUES = st.one_of(
    G.scalars, st.just({}), st.just([]), st.just({"signature": "00" * 63}), st.just({"signature": "00" * 65}),
    st.just({"signature": None}), st.just({"sig": "00" * 64}), st.just({"signature": "zz" * 64}),
    st.just({"signature": "00" * 64, "extra": 1}), st.just({"other_headers": "04", "signature": "0" * 127}),
    st.just({"other_headers": "", "signature": "00" * 64}), st.just({"other_headers": "0", "signature": "00" * 64}),
    st.just({"other_headers": "04", "signature": "00" * 64, "see_also": "AB" * 20}),
    st.just([{"signature": "00" * 64}]), st.just("00" * 64), G.json_values(5),
    # the right field names with values that are no strings at all
    st.sampled_from([{"other_headers": None, "signature": "ab" * 64}, {"other_headers": 5, "signature": "ab" * 64},
                     {"other_headers": "04", "signature": None}, {"other_headers": ["04"], "signature": "ab" * 64},
                     {"other_headers": "04", "signature": 7}, {"signature": ["ab" * 64]}, {"signature": {"signature": "ab" * 64}},
                     {"other_headers": "04", "signature": "ab" * 64, "see_also": None}, {"other_headers": "04", "signature": "ab" * 64, "see_also": {}},
                     {"other_headers": True, "signature": False}]))


def other_payload_bytes(draw, payload, envelope_hint):
    kind = draw(st.sampled_from(["leaf", "compact", "envelope", "retype", "empty", "utf8"]))
    if kind == "compact":
        return json.dumps(payload, sort_keys=True, separators=(",", ":")).encode(), kind
    if kind == "envelope":
        return canon({"signatures": {}, "signed": payload}), kind
    if kind == "empty":
        return b"", kind
    if kind == "utf8":
        b = json.dumps(payload, sort_keys=True, indent=2, ensure_ascii=False).encode("utf-8", "surrogatepass")
        if b != canon(payload):
            return b, kind
    if kind == "retype" and type(payload) is dict and payload:
        k = sorted(payload)[0]
        v = payload[k]
        nv = float(v) if type(v) is int and not isinstance(v, bool) and abs(v) < 2 ** 53 else [v]
        return canon(dict(payload, **{k: nv})), kind
    # a strict one-leaf change
    if type(payload) is dict:
        return canon(dict(payload, **{"\u0000extra": 1})), "leaf"
    return canon([payload]), "leaf"


@st.composite
def envelopes(draw, payloads=None, gpg=None, min_keys=1, max_keys=5, force_lower=None):
    """Return a case dict (see module docstring)."""
    payload = draw(payloads if payloads is not None else G.payloads)
    if gpg is None:
        gpg = draw(st.booleans())
    B = canon(payload)
    many = max_keys >= 5 and draw(st.integers(0, 7)) == 0
    # one case in eight is "big": 9-24 signers and 20-60 more authorized keys (cut-offs of the kind "more than 8 candidates",
    # "more than 16 authorized keys", "at most 32 entries examined" are only reached by such envelopes)
    seeds = keys.derived_seeds(draw(st.integers(0, 2 ** 32)), draw(st.integers(9, 24))) if many else draw(keys.seed_lists(min_size=max(2, min_keys), max_size=max_keys))
    pubs = [keys.pub_hex(s) for s in seeds]
    outsider = draw(keys.seeds.filter(lambda s: s not in seeds))
    sigs = []
    authorized = []
    for s, p in zip(seeds, pubs):
        state = draw(st.sampled_from(STATES))
        auth = state != "unauthorized" and draw(st.integers(0, 9)) != 0
        if auth:
            authorized.append(p)
        if state == "absent":
            continue
        if state in ("valid", "unauthorized"):
            sigs.append([p, make_entry(draw, s, B, gpg), state if auth or state == "unauthorized" else "unauthorized"])
        elif state == "valid_nonce":
            sigs.append([p, make_entry(draw, s, B, gpg, nonce=draw(st.integers(1, 2 ** 256))), state if auth else "unauthorized"])
        elif state == "other_payload":
            ob, kind = other_payload_bytes(draw, payload, None)
            lab = "other_payload:" + kind
            if ob == B:
                lab = "valid" if auth else "unauthorized"
            sigs.append([p, make_entry(draw, s, ob, gpg), lab])
        elif state == "bitflip":
            e = make_entry(draw, s, B, gpg)
            field = "signature" if not gpg or draw(st.booleans()) else "other_headers"
            hx = e[field]
            i = draw(st.integers(0, len(hx) - 1))
            nib = int(hx[i], 16) ^ (1 << draw(st.integers(0, 3)))
            e[field] = hx[:i] + "%x" % nib + hx[i + 1:]
            sigs.append([p, e, "bitflip:" + field])
        elif state == "misfiled":
            # the outsider's (or a fellow signer's) valid signature filed under this key
            other = draw(st.sampled_from([outsider] + [x for x in seeds if x != s]))
            sigs.append([p, make_entry(draw, other, B, gpg), "misfiled"])
        elif state == "wrong_shape":
            sigs.append([p, make_entry(draw, s, B, not gpg), "wrong_shape"])
        elif state == "malformed":
            sigs.append([p, draw(JUNK_VALUES), "malformed"])
        elif state == "upper_sig":
            e = make_entry(draw, s, B, gpg)
            f = draw(st.sampled_from(sorted(e)))
            if e[f].upper() != e[f]:
                e[f] = e[f].upper()
                sigs.append([p, e, "upper_sig"])
            else:
                e["extra"] = 0
                sigs.append([p, e, "malformed"])
        elif state in ("variant_key", "variant_and_canonical"):
            vs = key_variants(p)
            n = draw(st.integers(1, 3))
            for v in draw(st.lists(st.sampled_from(vs), min_size=n, max_size=n, unique=True)):
                if v != p:
                    sigs.append([v, make_entry(draw, s, B, gpg), "variant_key"])
            if state == "variant_and_canonical":
                sigs.append([p, make_entry(draw, s, B, gpg), "valid" if auth else "unauthorized"])
    # outsider signature and pure junk
    if draw(st.integers(0, 2)) == 0:
        sigs.append([keys.pub_hex(outsider), make_entry(draw, outsider, B, gpg), "unauthorized"])
    for _ in range(draw(st.integers(0, 3))):
        sigs.append([draw(G.strings), draw(JUNK_VALUES), "junk"])
    # authorized list: shuffle, ghosts, duplicates
    if many:
        authorized += keys.derived_ghosts(draw(st.integers(0, 2 ** 32)), draw(st.integers(20, 60)))
    for _ in range(draw(st.integers(0, 2))):
        authorized.append(draw(keys.ghost_keys))
    if authorized and draw(st.integers(0, 3)) == 0:
        authorized.append(draw(st.sampled_from(authorized)))
    authorized = list(draw(st.permutations(authorized)))
    # de-duplicate map keys (a dict cannot hold two), keep the later one, then permute
    seen = {}
    for k, v, lab in sigs:
        seen[k] = [k, v, lab]
    sigs = list(draw(st.permutations(list(seen.values()))))
    n_valid = len({k for k, v, lab in sigs if lab in ("valid", "valid_nonce") and k in authorized})
    if force_lower is not None:
        thr = max(1, n_valid + force_lower)
    else:
        thr = max(1, n_valid + draw(st.sampled_from([-1, 0, 0, 1, 1, 2])))
        if draw(st.integers(0, 9)) == 0:
            thr = 1
    return {"payload": payload, "gpg": gpg, "authorized": authorized, "threshold": thr, "sigs": sigs}


def to_envelope(case):
    import copy
    return {"signatures": {k: copy.deepcopy(v) for k, v, _ in case["sigs"]}, "signed": copy.deepcopy(case["payload"])}


def labels(case):
    return sorted({lab for _, _, lab in case["sigs"]})
