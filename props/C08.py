"""C08 - persisting metadata never changes its trust status (histories of write / load / add-signature)."""
import copy
import json
import os
import shutil
import tempfile

from hypothesis import strategies as st

from conda_content_trust import authentication as A, common as C, root_signing as RS, signing as S

from vlib import configrun, siblings, gen_envelope as GE, gen_json as G, gen_metadata as GM, gen_repodata as GR, gpgstub, keys, ref_grammar as g, \
    ref_verify as RV
from vlib.ref_canon import canon, jeq
from vlib.runner import Unit, Violation
from vlib import editor as _editor

PROPERTY = "C08"
LEVEL = "exploration"
RULE = ("Model-based histories over one file: an initial envelope (payload = any JSON / delegating metadata; signature "
        "map pre-loaded with foreign, junk and upper-case-keyed entries) followed by 3-14 drawn operations: write(other "
        "value, larger or smaller), load, load-mutate-in-memory-load, sign_raw(key) = load + sign_signable + write, "
        "sign_gpg(key) = sign_root_metadata_via_gpg with an in-process RFC 4880 stand-in signer, rewrite_sloppy(style) = "
        "the same value re-spelled as an external tool would, reload_cycle(n). Invariants after every step: file bytes "
        "== canonical bytes of the model after each library write; load(file) equals the model (strict JSON equality); "
        "every signature entry present before a signing step is present and identical after it; the verdict of "
        "verify_signable on the loaded envelope equals the verdict on the in-memory model and the reference count for "
        "a panel of (authorized set, threshold, mode). Non-trivial = at least two signing steps by different keys with "
        "a reload between, or a shrinking write, or payload with float / non-ASCII / depth >= 3.")
ASSUMPTIONS = ["the OpenPGP path is driven through an in-process stand-in for securesystemslib (vlib/gpgstub.py); the real "
               "gpg binary is exercised in C10"]

OPS = ["write_other", "load", "load", "load_mutate_load", "sign_raw", "sign_raw", "sign_raw", "sign_gpg", "sign_gpg",
       "rewrite_sloppy", "rewrite_sloppy", "reload_cycle", "reload_cycle", "junk_authorized", "verify_inplace", "verify_inplace"]


@st.composite
def _histories(draw):
    seeds = draw(keys.seed_lists(2, 4))
    pubs = [keys.pub_hex(s) for s in seeds]
    payload = draw(st.one_of(G.payloads, GM.signed_parts(pubs)))
    env = GM.wrap(payload)
    for k, v in draw(st.lists(st.tuples(st.one_of(G.strings, keys.ghost_keys, st.sampled_from([p.upper() for p in pubs])),
                                        st.one_of(GE.JUNK_VALUES, st.just({"signature": "ab" * 64}))), max_size=3)):
        env["signatures"][k] = v
    if draw(st.integers(0, 5)) == 0:
        # a flood of other parties' well-formed entries: whatever is signed later is LAST in insertion order and somewhere in the
        # middle once the file has been written (sorted) and loaded again
        for g in keys.derived_ghosts(draw(st.integers(0, 2 ** 32)), draw(st.integers(33, 150))):
            env["signatures"][g] = {"signature": "ab" * 64}
    if draw(st.booleans()):
        # a valid signature filed under the upper-case spelling of its key (does not count, and must stay where it is)
        s0 = seeds[0]
        env["signatures"][pubs[0].upper()] = {"signature": keys.sign_raw(s0, canon(payload)).hex()}
    others = draw(st.lists(st.one_of(st.builds(GM.wrap, G.payloads), st.builds(GM.wrap, G.payloads), G.payloads,
                                     st.just({"signatures": {}, "signed": 0}), st.just([])), min_size=1, max_size=3))
    ops = []
    for _ in range(draw(st.integers(3, 14))):
        op = draw(st.sampled_from(OPS))
        ops.append([op, draw(st.integers(0, 7))])
    return {"initial": env, "seeds": [s.hex() for s in seeds], "others": others, "ops": ops, "sibling": draw(st.sampled_from(siblings.KINDS))}


def _panel(env, pubs):
    """(authorized, threshold, gpg) questions asked about an envelope"""
    out = []
    for gpg in (False, True):
        out.append((pubs, 1, gpg))
        out.append((pubs, 2, gpg))
        out.append((pubs[:1], 1, gpg))
    # and the way most callers ask: without saying which kind of signature they expect (documented default: raw ed25519)
    out.append((pubs, 1, None))
    out.append((pubs[:1], 1, None))
    return out


def _verdicts(env, pubs):
    v = []
    for auth, thr, gpg in _panel(env, pubs):
        if gpg is None:
            v.append(RV.outcome(A.verify_signable, copy.deepcopy(env), auth, thr)[0])
        else:
            v.append(RV.outcome(A.verify_signable, copy.deepcopy(env), auth, thr, gpg=gpg)[0])
    return v


def _expected_verdicts(env, pubs):
    v = []
    for auth, thr, gpg in _panel(env, pubs):
        v.append(RV.signable(env, auth, thr, bool(gpg)))       # None = argument left out = the documented default, raw mode
    return v


def check_history(case):
    seeds = [bytes.fromhex(s) for s in case["seeds"]]
    pubs = [keys.pub_hex(s) for s in seeds]
    stub = gpgstub.Stub(seeds)
    d = tempfile.mkdtemp(prefix="c08-")
    fn = os.path.join(d, "metadata.json")
    labs = set()
    signers_since = []
    sign_steps = 0
    reload_between = False
    shrinking = False
    try:
        gpgstub.install(RS, stub)
        model = copy.deepcopy(case["initial"])
        planted = siblings.plant(fn, case.get("sibling", "none"))
        for nm in planted:
            pth = os.path.join(d, nm)
            if os.path.isfile(pth):
                with open(pth, "wb") as f:       # long left-over content (an earlier, interrupted write of a bigger document)
                    f.write(b'{"left": "over", "pad": "' + b"x" * 5000 + b'"}')
        C.write_metadata_to_file(copy.deepcopy(model), fn)

        def check_file(step, library_write):
            data = open(fn, "rb").read()
            if library_write and data != canon(model):
                try:
                    ok = jeq(json.loads(data), model)
                except Exception:
                    ok = False
                raise Violation("after step %s the file is not the canonical serialization of the value written (%s)"
                                % (step, "same value, other bytes" if ok else "different content"),
                                bucket="file not canonical" if ok else "file content wrong")
            try:
                loaded = C.load_metadata_from_file(fn)
            except Exception as e:
                raise Violation("after step %s the file does not load: %s %s" % (step, type(e).__name__, str(e)[:80]),
                                bucket="file does not load")
            if not jeq(loaded, model):
                raise Violation("after step %s load(file) differs from the value last written" % (step,),
                                bucket="load differs from written value")
            if canon(loaded) != canon(model):
                raise Violation("after step %s canonical bytes changed through the file" % (step,), bucket="canonical bytes changed")
            if RV.threshold_args_ok(model, pubs, 1):
                got_file = _verdicts(loaded, pubs)
                got_mem = _verdicts(model, pubs)
                if got_file != got_mem:
                    raise Violation("after step %s verdicts on the loaded envelope %r differ from the in-memory one %r"
                                    % (step, got_file, got_mem), bucket="verdict changed by persistence")
                for (auth, thr, gpg), exp, got in zip(_panel(model, pubs), _expected_verdicts(model, pubs), got_file):
                    bad = RV.mismatch(exp, got)
                    if bad:
                        raise Violation("after step %s verify_signable(threshold %d, gpg=%s) on the stored envelope: %s"
                                        % (step, thr, gpg, bad), bucket="stored envelope verdict wrong")
            return loaded

        check_file("initial write", True)
        for i, (op, arg) in enumerate(case["ops"]):
            step = "%d:%s" % (i, op)
            labs.add(op)
            if op == "write_other":
                new = copy.deepcopy(case["others"][arg % len(case["others"])])
                if len(canon(new)) < len(canon(model)):
                    shrinking = True
                model = new
                C.write_metadata_to_file(copy.deepcopy(model), fn)
                check_file(step, True)
            elif op == "load":
                check_file(step, False)
                reload_between = reload_between or sign_steps > 0
            elif op == "load_mutate_load":
                a = C.load_metadata_from_file(fn)
                if isinstance(a, dict):
                    a["verif-in-memory-only"] = 1
                    if isinstance(a.get("signatures"), dict):
                        a["signatures"]["in-memory-only"] = {"signature": "00" * 64}
                elif isinstance(a, list):
                    a.append("verif-in-memory-only")
                b = C.load_metadata_from_file(fn)
                if not jeq(b, model):
                    raise Violation("a second load returns a value changed in memory after the first load, not the "
                                    "file's content", bucket="load returns shared/stale object")
            elif op in ("sign_raw", "sign_gpg"):
                if not RV.threshold_args_ok(model, pubs, 1):
                    continue
                k = arg % len(seeds)
                before = copy.deepcopy(model["signatures"])
                payload_bytes = canon(model["signed"])
                if op == "sign_raw":
                    env = C.load_metadata_from_file(fn)
                    S.sign_signable(env, C.PrivateKey.from_bytes(seeds[k]))
                    C.write_metadata_to_file(env, fn)
                    model["signatures"][pubs[k]] = {"signature": keys.sign_raw(seeds[k], payload_bytes).hex()}
                    after = C.load_metadata_from_file(fn)
                else:
                    try:
                        RS.sign_root_metadata_via_gpg(fn, gpgstub.fingerprint_of(seeds[k]))
                    except Exception as e:
                        raise Violation("sign_root_metadata_via_gpg raised %s: %s" % (type(e).__name__, str(e)[:100]),
                                        bucket="gpg signing raises")
                    after = C.load_metadata_from_file(fn)
                    ent = after.get("signatures", {}).get(pubs[k]) if isinstance(after, dict) else None
                    if not (g.is_gpg_entry(ent) and RV.entry_class(pubs[k], ent, payload_bytes, True) == "counts"):
                        raise Violation("after sign_root_metadata_via_gpg the file has no valid OpenPGP-mode entry under "
                                        "the signer's raw public key", bucket="gpg entry missing/invalid")
                    model["signatures"][pubs[k]] = copy.deepcopy(ent)
                for kk, vv in before.items():
                    if kk == pubs[k]:
                        continue
                    if kk not in after["signatures"] or not jeq(after["signatures"][kk], vv):
                        raise Violation("adding a signature (%s) %s the existing entry filed under %r"
                                        % (op, "removed" if kk not in after["signatures"] else "altered", kk),
                                        bucket="existing signature entry touched")
                extra = set(after["signatures"]) - set(before) - {pubs[k]}
                if extra:
                    raise Violation("adding a signature created additional entries %r" % sorted(extra)[:3],
                                    bucket="existing signature entry touched")
                check_file(step, True)
                sign_steps += 1
                signers_since.append(k)
            elif op == "junk_authorized":
                # somebody files a malformed entry under an AUTHORIZED key that has not signed (yet): it is last in insertion
                # order and anywhere once the file has been written (sorted) and loaded
                if not RV.threshold_args_ok(model, pubs, 1):
                    continue
                free = [p_ for p_ in pubs if p_ not in model["signatures"]]
                if not free:
                    continue
                junk = [{"signature": "AB" * 64}, {"signature": "zz"}, "not a signature", None, {"signature": "ab" * 63},
                        {"other_headers": "zz", "signature": "ab" * 64}][arg % 6]
                env = C.load_metadata_from_file(fn)
                env["signatures"][free[arg % len(free)]] = copy.deepcopy(junk)
                C.write_metadata_to_file(env, fn)
                model["signatures"][free[arg % len(free)]] = copy.deepcopy(junk)
                check_file(step, True)
            elif op == "verify_inplace":
                # the holder of the stored envelope asks about it with the object it loaded (no copies), also with a threshold
                # it cannot meet, and then writes that same object back: asking must not have changed it
                if not RV.threshold_args_ok(model, pubs, 1):
                    continue
                env = C.load_metadata_from_file(fn)
                auth = list(pubs)
                for thr in (len(pubs) + 1, 2, 1):
                    for gpg in (False, True):
                        RV.outcome(A.verify_signable, env, auth, thr, gpg=gpg)
                if not jeq(env, model) or auth != pubs:
                    raise Violation("after step %s: verify_signable changed the envelope / the key list it was asked about (entries %d -> %d, "
                                    "keys %d -> %d)" % (step, len(model["signatures"]), len(env.get("signatures", {})), len(pubs), len(auth)),
                                    bucket="verification modifies the stored envelope")
                C.write_metadata_to_file(env, fn)
                check_file(step, True)
            elif op == "rewrite_sloppy":
                style = GR.STYLES[arg % len(GR.STYLES)]
                with open(fn, "wb") as f:
                    f.write(GR.spell(model, style, canon))
                check_file(step, False)
            elif op == "reload_cycle":
                for _ in range(1 + arg % 3):
                    v = C.load_metadata_from_file(fn)
                    C.write_metadata_to_file(v, fn)
                check_file(step, True)
                reload_between = reload_between or sign_steps > 0
        if sorted(os.listdir(d)) != sorted(["metadata.json"] + planted):
            raise Violation("extra files left behind (or someone else's removed): %r" % sorted(os.listdir(d)), bucket="extra files")
    finally:
        gpgstub.uninstall(RS)
        shutil.rmtree(d, ignore_errors=True)
    f = G.features(case["initial"]["signed"])
    nontrivial = (len(set(signers_since)) >= 2 and reload_between) or shrinking or bool(f & {"float", "non-ascii", "depth>=3"})
    labs |= {"two-signers" if len(set(signers_since)) >= 2 else "<2-signers", "shrinking-write" if shrinking else "no-shrink"}
    return {"nontrivial": nontrivial, "labels": sorted(labs), "count": {"steps": len(case["ops"]), "sign_steps": sign_steps}}


@st.composite
def _persist_cases(draw):
    docs = draw(st.lists(st.one_of(G.payloads, st.builds(GM.wrap, G.payloads)), min_size=2, max_size=6))
    styles = [draw(st.sampled_from(["utf8", "utf8", "compact", "spaces", "crlf", "unsorted"])) for _ in docs]
    cfg = draw(configrun.configs)
    if draw(st.integers(0, 2)) == 0:
        cfg = configrun.with_ascii_locale(cfg)
    return {"docs": docs, "styles": styles, "config": cfg}


def check_persist_config(case):
    import hashlib
    raws = [{"rawfile": GR.spell(d_, st_, canon)} for d_, st_ in zip(case["docs"], case.get("styles", []))]
    got = configrun.run_child("persist", case["docs"] + raws, case["config"])
    if not isinstance(got, list):
        raise Violation("child interpreter failed under %r: %s" % (case["config"], got.get("stderr", "")[-300:]), bucket="child failed")
    for i, (doc, (raw, back)) in enumerate(zip(case["docs"], got[len(case["docs"]):])):
        if back != hashlib.sha256(canon(doc)).hexdigest():
            raise Violation("under configuration %r, loading a file that spells document %d as an external tool would (%s) gives %s"
                            % ({k: v for k, v in case["config"].items() if v}, i, case["styles"][i],
                               raw if raw.startswith("raise") else "a different JSON value"), bucket="load depends on configuration")
    for i, (doc, (raw, back)) in enumerate(zip(case["docs"], got)):
        want = hashlib.sha256(canon(doc)).hexdigest()
        if raw != want or back != want:
            raise Violation("under configuration %r, writing document %d over an existing file and loading it back gives %s / %s instead "
                            "of the canonical bytes" % ({k: v for k, v in case["config"].items() if v}, i, raw[:24], back[:24]),
                            bucket="persistence depends on configuration")
    ascii_locale = case["config"].get("LC_ALL") in ("C", "POSIX") and case["config"].get("PYTHONUTF8") != "1" and \
        case["config"].get("PYTHONCOERCECLOCALE") == "0"
    return {"nontrivial": True, "labels": ["opt=%s" % case["config"].get("PYTHONOPTIMIZE"), "warnings=%s" % case["config"].get("PYTHONWARNINGS"),
                                           "ascii-locale" if ascii_locale else "utf8-locale"]}


UNITS = [
    Unit("config", check_persist_config, strategy=_persist_cases, quick=24, thorough=400, shards_quick=8, shrink=False,
         doc="write over an existing file + load in fresh interpreters under drawn configurations (-O, warnings, locale, encoding)"),
    Unit("history", check_history, strategy=_histories, quick=400, thorough=15000,
         essential=["sign_raw", "sign_gpg", "rewrite_sloppy", "load_mutate_load", "two-signers", "shrinking-write"],
         doc="write / load / sign / re-spell histories on one file with byte, value, entry-preservation and verdict invariants"),
    _editor.unit(),
]
