"""C12 - verification is pure: no argument mutation, no state carried across calls."""
import copy
import os
import sys
import threading

from hypothesis import strategies as st

import conda_content_trust
from conda_content_trust import authentication as A, common as C, signing as S

from props import C02, C03
from vlib import configrun, faults, hostile, gen_deleg, gen_envelope as GE, gen_json as G, gen_metadata as GM, gen_pyvalues as GP, keys, ref_openpgp, \
    ref_schema, ref_verify as RV, related, sched, tagjson
from vlib.ref_canon import canon, jeq
from vlib.runner import Inconclusive, Unit, Violation

PROPERTY = "C12"
LEVEL = "exploration"
RULE = ("(a) Histories: a pool of keys, payloads (incl. tuple payloads with nested containers), envelopes and trusted "
        "metadata (incl. thresholds / versions of gray numeric type such as 1.0 and True), and 6-30 drawn calls of every "
        "public verifier, validator and wrapper on pool members, including related-input calls (same key and signature on "
        "another payload, an ==-equal but different JSON value, the previous arguments with one leaf changed). Invariants: a "
        "type-exact, order-preserving snapshot of every argument is unchanged after each call; each distinct call descriptor "
        "yields the same outcome every time it is repeated, also after other calls, and the outcome of a fresh deep copy; "
        "wrapping copies: later changes to the payload or to the envelope never show on the other side. (b) Schedules: 2-3 "
        "threads, each running one verifier call over SHARED trusted metadata, interleaved at source-line granularity by a "
        "harness-owned scheduler following a Hypothesis-generated choice list; every outcome must equal the sequential "
        "outcome and shared arguments must be unchanged; plus a free-running 8-thread stress (supporting evidence, not "
        "deterministic). (c) Configurations: the same corpus of accept/reject calls replayed in fresh interpreters over "
        "pre-imported modules x stdout encoding x warnings filter x hash seed x locale x cwd gives identical outcome vectors "
        "that equal the reference. Non-trivial = history with a repeated descriptor after a related-input call; schedule with "
        ">= 3 context switches inside repository code; configuration case with both accepts and rejects.")
ASSUMPTIONS = ["pre-emption inside C extensions cannot be scheduled by the harness; only line-level interleavings of Python code are owned",
               "objects with hostile dunder methods are out of scope"]

PKG = os.path.dirname(os.path.realpath(conda_content_trust.__file__))


_HEX64 = __import__("re").compile(r"\A[0-9a-f]{64}\Z")


def snap(x):
    """type-exact, order-preserving snapshot"""
    return tagjson.dumps(x)


# ---- (a) histories -----------------------------------------------------------------------------------------------

CALLS = ["verify_signable", "verify_signable", "verify_delegation", "verify_delegation", "verify_root", "checkformat_delegating_metadata",
         "is_signable", "checkformat_signature", "wrap_as_signable", "canonserialize", "related_payload", "related_eq", "repeat", "repeat",
         "verify_gpg_signature", "checkformat_delegation", "key_role_swap"]

GRAY_NUMS = [1.0, True, 2.0, 1, 2]


@st.composite
def _histories(draw):
    seeds = draw(keys.seed_lists(3, 5))
    pubs = [keys.pub_hex(s) for s in seeds]
    # envelopes (raw and OpenPGP mode), some validly signed
    envs = []
    for _ in range(draw(st.integers(2, 4))):
        c = draw(GE.envelopes())
        envs.append({"env": GE.to_envelope(c), "authorized": c["authorized"], "threshold": c["threshold"], "gpg": c["gpg"]})
    # trusted metadata with delegations, incl. numeric fields of gray type
    dcase = draw(gen_deleg.delegation_cases())
    T = dcase["T"]
    if draw(st.booleans()):
        r = dcase["role"] if dcase["role"] in T["signed"]["delegations"] else next(iter(T["signed"]["delegations"]))
        T["signed"]["delegations"][r]["threshold"] = draw(st.sampled_from(GRAY_NUMS))
    if draw(st.booleans()) and "version" in T["signed"]:
        T["signed"]["version"] = draw(st.sampled_from([1.0, True, 3, 2.0]))
    rcase = draw(C03.root_pairs())
    payloads = [draw(G.payloads) for _ in range(2)]
    payloads.append(draw(st.sampled_from([(1, [2, {"a": [3]}]), ({"k": [1, 2]}, "x"), ([1], [2]), ((1, [2]),)])))
    calls = [[CALLS[draw(st.integers(0, 10 ** 6)) % len(CALLS)], draw(st.integers(0, 2 ** 16)), draw(st.integers(0, 2 ** 16))]
             for _ in range(draw(st.integers(6, 30)))]
    return {"envs": envs, "deleg": {"role": dcase["role"], "U": dcase["U"], "T": T, "gpg": dcase["gpg"]},
            "root": {"T": rcase["T"], "N": rcase["N"]}, "payloads": payloads, "seeds": [s.hex() for s in seeds], "calls": calls}


def _outcome(f, *a, **kw):
    try:
        r = f(*a, **kw)
        return "return:" + (snap(r) if not hasattr(r, "public_bytes") else "key")[:200]
    except Exception as e:
        return "raise:" + type(e).__name__


def check_history(case):
    seeds = [bytes.fromhex(s) for s in case["seeds"]]
    pool = copy.deepcopy({k: case[k] for k in ("envs", "deleg", "root", "payloads")})
    seen = {}            # descriptor -> outcome
    log = []             # (descriptor, thunk factory)
    repeated_after_related = 0
    related_done = False
    n_calls = 0

    def call(desc, f, args, kwargs=None, check_args=True):
        """Run f(*args); assert argument snapshots unchanged and descriptor determinism."""
        nonlocal n_calls
        kwargs = kwargs or {}
        before = [snap(a) for a in args] if check_args else None
        fresh = copy.deepcopy(args)
        out = _outcome(f, *args, **kwargs)
        n_calls += 1
        if check_args:
            after = [snap(a) for a in args]
            for i, (b, a_) in enumerate(zip(before, after)):
                if b != a_:
                    raise Violation("%s modified its argument #%d (%s)" % (desc.split("|")[0], i, _diff(b, a_)),
                                    bucket="argument mutated by " + desc.split("|")[0])
        out2 = _outcome(f, *fresh, **kwargs)
        n_calls += 1
        if out2 != out:
            raise Violation("%s gives %s on the caller's objects and %s on a fresh deep copy of the same arguments"
                            % (desc.split("|")[0], out, out2), bucket="outcome depends on object identity")
        key = desc + "|" + "|".join(snap(a) for a in fresh) + snap(sorted(kwargs.items()))
        if key in seen and seen[key] != out:
            raise Violation("%s answered %s earlier in this history and %s now, for identical arguments"
                            % (desc.split("|")[0], seen[key], out), bucket="outcome depends on earlier calls")
        seen[key] = out
        log.append((desc, f, fresh, kwargs))
        return out

    for name, a, b in case["calls"]:
        e = pool["envs"][a % len(pool["envs"])]
        if name == "verify_signable":
            call("verify_signable", A.verify_signable, [e["env"], e["authorized"], e["threshold"]], {"gpg": e["gpg"]})
        elif name == "verify_delegation":
            dg = pool["deleg"]
            role = [dg["role"], "root", "key_mgr"][b % 3]
            call("verify_delegation", A.verify_delegation, [role, dg["U"], dg["T"]], {"gpg": [dg["gpg"], False, True][a % 3]})
            if a % 4 == 0:     # the metadata that was just used as TRUSTED argument is now itself verified
                call("verify_signable", A.verify_signable, [dg["T"], list(dg["T"]["signatures"])[:3] or [keys.pub_hex(seeds[0])], 1])
        elif name == "verify_root":
            call("verify_root", A.verify_root, [pool["root"]["T"], pool["root"]["N"]])
            # right afterwards: the same signature entries on changed content, same versions
            N2 = copy.deepcopy(pool["root"]["N"])
            if isinstance(N2, dict) and isinstance(N2.get("signed"), dict):
                N2["signed"]["verif-probe"] = a
                exp = RV.root_update(pool["root"]["T"], N2)
                o = RV.outcome(A.verify_root, copy.deepcopy(pool["root"]["T"]), N2)[0]
                bad = RV.mismatch(exp, o)
                if bad:
                    raise Violation("after verify_root on (T, N), an offer with the same versions and signature entries but changed "
                                    "content: %s" % bad, bucket="outcome depends on earlier calls")
                related_done = True
        elif name == "checkformat_delegating_metadata":
            call(name, C.checkformat_delegating_metadata, [[pool["deleg"]["T"], pool["root"]["N"], pool["deleg"]["U"], e["env"]][b % 4]])
        elif name == "checkformat_delegation":
            dels = pool["deleg"]["T"]["signed"]["delegations"]
            call(name, C.checkformat_delegation, [dels[sorted(dels)[b % len(dels)]]])
            call("checkformat_delegations", C.checkformat_delegations, [dels])
        elif name == "is_signable":
            call(name, C.is_signable, [e["env"]])
        elif name == "checkformat_signature":
            vals = list(e["env"]["signatures"].values()) or [{"signature": "00" * 64}]
            call(name, C.checkformat_signature, [vals[b % len(vals)]])
            call("checkformat_any_signature", C.checkformat_any_signature, [vals[b % len(vals)]])
        elif name == "canonserialize":
            call(name, C.canonserialize, [[e["env"]["signed"], pool["deleg"]["T"], pool["payloads"][0]][b % 3]])
        elif name == "verify_gpg_signature":
            ents = [(k, v) for k, v in pool["root"]["N"].get("signatures", {}).items() if isinstance(v, dict)] if isinstance(pool["root"]["N"], dict) else []
            if ents:
                k, v = ents[b % len(ents)]
                data = canon(pool["root"]["N"]["signed"])
                # the payload as bytes, and as a mutable buffer (the function admits any bytes-like object)
                call(name, A.verify_gpg_signature, [v, k, data if a % 2 else bytearray(data)])
        elif name == "wrap_as_signable":
            p = pool["payloads"][b % len(pool["payloads"])]
            before = snap(p)
            try:
                env = S.wrap_as_signable(p)
            except TypeError:
                continue
            if snap(p) != before:
                raise Violation("wrap_as_signable modified the payload", bucket="argument mutated by wrap_as_signable")
            want_env = snap(env)
            if related.inplace_mutate_nested(p) or related.inplace_mutate(p):
                if snap(env) != want_env:
                    raise Violation("changing the original payload (a %s) after wrap_as_signable changed the envelope: the payload "
                                    "was not deep-copied" % type(p).__name__, bucket="wrap aliases payload")
            want_p = snap(p)
            if isinstance(env["signed"], (dict, list, tuple)) and (related.inplace_mutate_nested(env["signed"]) or related.inplace_mutate(env["signed"])):
                if snap(p) != want_p:
                    raise Violation("changing the envelope after wrap_as_signable changed the caller's payload (a %s)" % type(p).__name__,
                                    bucket="wrap aliases payload")
            # the same with nested containers that are instances of dict / list / tuple subclasses (OrderedDict, defaultdict,
            # namedtuple, a list subclass): still JSON-serializable, and still to be copied
            p2, n_sub = related.subclassed(p, variant=a)
            if n_sub:
                env2 = S.wrap_as_signable(p2)
                want2 = related.plain(env2["signed"])
                if want2 != related.plain(p2):
                    raise Violation("wrap_as_signable of a payload with nested container-subclass instances: the wrapped copy differs "
                                    "from the payload", bucket="wrap changes payload")
                related.mutate_all_nested(p2)
                if related.plain(env2["signed"]) != want2:
                    raise Violation("changing a nested %s inside the original payload after wrap_as_signable changed the envelope: the "
                                    "payload was not deep-copied" % "OrderedDict / defaultdict / list-subclass / namedtuple member",
                                    bucket="wrap aliases payload")
                want_p2 = related.plain(p2)
                related.mutate_all_nested(env2["signed"])
                if related.plain(p2) != want_p2:
                    raise Violation("changing the envelope after wrap_as_signable changed the caller's payload (nested container-"
                                    "subclass instances are shared)", bucket="wrap aliases payload")
            if isinstance(env["signed"], (dict, list)):
                S.sign_signable(env, C.PrivateKey.from_bytes(seeds[0]))
                o1 = call("verify_signable(wrapped)", A.verify_signable, [env, [keys.pub_hex(seeds[0])], 1])
                if not o1.startswith("return"):
                    raise Violation("freshly wrapped and signed payload does not verify: %s" % o1, bucket="wrap/sign/verify")
        elif name == "related_payload":
            # same key, same signature, another payload (new object), right after verifying the original
            call("verify_signable", A.verify_signable, [e["env"], e["authorized"], e["threshold"]], {"gpg": e["gpg"]})
            e2 = dict(copy.deepcopy(e["env"]), signed=related.field_change(e["env"]["signed"]))
            call("verify_signable", A.verify_signable, [e2, e["authorized"], e["threshold"]], {"gpg": e["gpg"]})
            exp = RV.signable(e2, e["authorized"], e["threshold"], e["gpg"])
            o = RV.outcome(A.verify_signable, copy.deepcopy(e2), e["authorized"], e["threshold"], gpg=e["gpg"])[0]
            bad = RV.mismatch(exp, o)
            if bad:
                raise Violation("after verifying an envelope, the same signatures on a changed payload: %s" % bad,
                                bucket="outcome depends on earlier calls")
            related_done = True
            # OpenPGP mode: same key, same signature bytes, same payload, other hashed-header bytes
            if e["gpg"]:
                e3 = copy.deepcopy(e["env"])
                changed = False
                for k, v in e3["signatures"].items():
                    if isinstance(v, dict) and isinstance(v.get("other_headers"), str) and v["other_headers"]:
                        v["other_headers"] = v["other_headers"] + "00"
                        changed = True
                if changed:
                    exp = RV.signable(e3, e["authorized"], e["threshold"], True)
                    o = RV.outcome(A.verify_signable, e3, e["authorized"], e["threshold"], gpg=True)[0]
                    bad = RV.mismatch(exp, o)
                    if bad:
                        raise Violation("after verifying an OpenPGP-mode envelope, the same signature values with altered hashed headers: %s"
                                        % bad, bucket="outcome depends on earlier calls")
        elif name == "related_eq":
            r = related.eq_retype(e["env"]["signed"])
            if r is not None:
                call("verify_signable", A.verify_signable, [e["env"], e["authorized"], e["threshold"]], {"gpg": e["gpg"]})
                e2 = dict(copy.deepcopy(e["env"]), signed=r)
                exp = RV.signable(e2, e["authorized"], e["threshold"], e["gpg"])
                o = RV.outcome(A.verify_signable, e2, e["authorized"], e["threshold"], gpg=e["gpg"])[0]
                bad = RV.mismatch(exp, o)
                if bad:
                    raise Violation("after verifying an envelope, an ==-equal but different JSON payload with the same signatures: %s" % bad,
                                    bucket="outcome depends on earlier calls")
                related_done = True
        elif name == "key_role_swap":
            # The hex strings this history uses as PUBLIC keys are now used as PRIVATE key values (any 32 bytes are a valid
            # Ed25519 seed; an operator feeding the .pub hex to the signer does exactly this), and a seed as public key value.
            hexes = [h for h in list(e["authorized"])[:3] + list(e["env"]["signatures"])[:3] if isinstance(h, str) and _HEX64.match(h)]
            for h in hexes:
                _outcome(lambda: S.sign_signable(S.wrap_as_signable({"x": a}), C.PrivateKey.from_hex(h)))
            _outcome(C.PublicKey.from_hex, seeds[0].hex())
            exp = RV.signable(e["env"], e["authorized"], e["threshold"], e["gpg"])
            o = RV.outcome(A.verify_signable, copy.deepcopy(e["env"]), e["authorized"], e["threshold"], gpg=e["gpg"])[0]
            bad = RV.mismatch(exp, o)
            if bad:
                raise Violation("after the authorized key strings were used as private-key values elsewhere in the process: %s" % bad,
                                bucket="outcome depends on earlier calls")
            env = S.wrap_as_signable({"y": b})
            o = _outcome(lambda: S.sign_signable(env, C.PrivateKey.from_hex(seeds[0].hex())))
            if o.startswith("raise") or env["signatures"] != {keys.pub_hex(seeds[0]): {"signature": keys.sign_raw(seeds[0], canon({"y": b})).hex()}}:
                raise Violation("after a seed's hex string was used as a public-key value elsewhere in the process, signing with it gives %s / "
                                "an entry that is not the RFC 8032 signature under its public key" % o[:60], bucket="outcome depends on earlier calls")
            related_done = True
        elif name == "repeat" and log:
            desc, f, args, kwargs = log[a % len(log)]
            call(desc, f, copy.deepcopy(args), kwargs)
            if related_done:
                repeated_after_related += 1
    return {"nontrivial": repeated_after_related > 0, "labels": sorted({c[0] for c in case["calls"]}),
            "count": {"library_calls": n_calls, "repeats_after_related": repeated_after_related}}


def _diff(a, b):
    i = next((i for i, (x, y) in enumerate(zip(a, b)) if x != y), min(len(a), len(b)))
    return "...%s -> ...%s" % (a[max(0, i - 30):i + 30], b[max(0, i - 30):i + 30])


# ---- (b) schedules ---------------------------------------------------------------------------------------------------

@st.composite
def _schedules(draw):
    seeds = draw(keys.seed_lists(3, 4))
    pubs = [keys.pub_hex(s) for s in seeds]
    thr = draw(st.integers(1, 2))
    T = GM.wrap(GM.signed_part("root", {"key_mgr": {"pubkeys": pubs[:3], "threshold": thr}, "root": {"pubkeys": pubs[:2], "threshold": 1}},
                               version=draw(st.integers(1, 9))))
    n = draw(st.integers(2, 3))
    jobs = []
    for i in range(n):
        payload = GM.signed_part("key_mgr", {"pkg_mgr": {"pubkeys": pubs[:1], "threshold": 1}}, version=i + 1)
        U = GM.wrap(payload)
        plan = draw(st.sampled_from(["good", "good", "none", "short", "wrongkey", "junk"]))
        if plan == "good":
            GM.sign_envelope(U, seeds[:thr], False)
        elif plan == "short":
            GM.sign_envelope(U, seeds[:thr - 1], False)
        elif plan == "wrongkey":
            GM.sign_envelope(U, seeds[3:], False)
        elif plan == "junk":
            GM.sign_envelope(U, seeds[:thr - 1], False)
            U["signatures"]["junk \u00e9"] = {"signature": "zz"}
            U["signatures"][pubs[2]] = {"signature": "00" * 64}
        jobs.append({"U": U, "plan": plan, "kind": draw(st.sampled_from(["delegation", "delegation", "signable"]))})
    choices = draw(st.lists(st.integers(0, 5), min_size=20, max_size=300))
    return {"T": T, "jobs": jobs, "choices": choices}


def _job_callable(T, job):
    if job["kind"] == "delegation":
        return lambda: RV.outcome(A.verify_delegation, "key_mgr", job["U"], T)[0]
    d = T["signed"]["delegations"]["key_mgr"]
    return lambda: RV.outcome(A.verify_signable, job["U"], d["pubkeys"], d["threshold"])[0]


def check_schedule(case):
    T = copy.deepcopy(case["T"])
    jobs = copy.deepcopy(case["jobs"])
    sequential = [_job_callable(copy.deepcopy(T), copy.deepcopy(j))() for j in jobs]
    for j, s in zip(jobs, sequential):
        exp = RV.delegation("key_mgr", j["U"], T, False) if j["kind"] == "delegation" else \
            RV.signable(j["U"], T["signed"]["delegations"]["key_mgr"]["pubkeys"], T["signed"]["delegations"]["key_mgr"]["threshold"], False)
        bad = RV.mismatch(exp, s)
        if bad:
            raise Violation("sequential call: %s" % bad, bucket="sequential verdict wrong")
    before = snap(T)
    before_jobs = [snap(j["U"]) for j in jobs]
    try:
        results, switches, trace = sched.run([_job_callable(T, j) for j in jobs], case["choices"], PKG)
    except sched.SchedulerStuck as e:
        raise Inconclusive("owned schedule did not complete: %s" % e)
    got = []
    for r in results:
        if r[0] == "raise":
            if isinstance(r[1], sched.SchedulerStuck):
                raise Inconclusive("owned schedule stuck")
            got.append(type(r[1]).__name__)
        else:
            got.append(r[1])
    if got != sequential:
        raise Violation("interleaved at line granularity (%d context switches), the %d concurrent calls over shared trusted metadata "
                        "gave %r; run one after the other they give %r (plans %r)"
                        % (switches, len(jobs), got, sequential, [j["plan"] for j in jobs]), bucket="verdict depends on interleaving")
    if snap(T) != before or [snap(j["U"]) for j in jobs] != before_jobs:
        raise Violation("concurrent verification modified its arguments", bucket="argument mutated under concurrency")
    return {"nontrivial": switches >= 3, "labels": ["threads=%d" % len(jobs), "switches>=20" if switches >= 20 else "switches<20",
                                                    "mixed" if len(set(sequential)) > 1 else "uniform"],
            "count": {"context_switches": switches}}


def check_stress(case):
    """Free-running threads with a tiny switch interval (supporting evidence; not deterministic)."""
    T = copy.deepcopy(case["T"])
    jobs = copy.deepcopy(case["jobs"])
    sequential = [_job_callable(copy.deepcopy(T), copy.deepcopy(j))() for j in jobs]
    old = sys.getswitchinterval()
    sys.setswitchinterval(1e-6)
    errors = []
    n_iter = 40

    def worker(i):
        f = _job_callable(T, jobs[i % len(jobs)])
        for _ in range(n_iter):
            o = f()
            if o != sequential[i % len(jobs)]:
                errors.append((i % len(jobs), o))
                return
    try:
        ts = [threading.Thread(target=worker, args=(i,)) for i in range(8)]
        for t in ts:
            t.start()
        for t in ts:
            t.join(60)
    finally:
        sys.setswitchinterval(old)
    if errors:
        raise Violation("free-running threads: call %d gave %s instead of %s" % (errors[0][0], errors[0][1], sequential[errors[0][0]]),
                        bucket="verdict depends on interleaving (stress)")
    return {"nontrivial": len(set(sequential)) > 1, "labels": ["threads=8"], "count": {"calls": 8 * n_iter}}


# ---- (c) configurations --------------------------------------------------------------------------------------------------

@st.composite
def _config_cases(draw):
    calls = []
    for _ in range(draw(st.integers(3, 5))):
        c = draw(GE.envelopes())
        calls.append(["verify_signable", GE.to_envelope(c), c["authorized"], c["threshold"], c["gpg"]])
    r = draw(C03.root_pairs())
    calls.append(["verify_root", r["T"], r["N"]])
    ch = draw(C02._chain_cases())
    T, N = C02.build_chain(ch)
    calls.append(["verify_root", T, N])
    d = draw(gen_deleg.delegation_cases())
    calls.append(["verify_delegation", d["role"], d["U"], d["T"], d["gpg"]])
    return {"calls": calls, "configs": [draw(configrun.configs), draw(configrun.configs)]}


def check_config(case):
    here = []
    want = []
    for c in case["calls"]:
        if c[0] == "verify_signable":
            here.append(RV.outcome(A.verify_signable, copy.deepcopy(c[1]), c[2], c[3], gpg=c[4])[0])
            want.append(RV.signable(c[1], c[2], c[3], c[4]))
        elif c[0] == "verify_root":
            here.append(RV.outcome(A.verify_root, copy.deepcopy(c[1]), copy.deepcopy(c[2]))[0])
            want.append(RV.root_update(c[1], c[2]))
        else:
            here.append(RV.outcome(A.verify_delegation, c[1], copy.deepcopy(c[2]), copy.deepcopy(c[3]), gpg=c[4])[0])
            want.append(RV.delegation(c[1], c[2], c[3], c[4]))
    vectors = []
    for cfg in case["configs"]:
        got = configrun.run_child("calls", case["calls"], cfg)
        if isinstance(got, dict):
            raise Violation("child interpreter failed under %r: %s" % (cfg, got.get("stderr", "")[-300:]), bucket="child failed")
        vectors.append(got)
        for i, (w, g_) in enumerate(zip(want, got)):
            bad = RV.mismatch(w, g_)
            if bad:
                raise Violation("call %d (%s) under configuration %r: %s" % (i, case["calls"][i][0], cfg, bad),
                                bucket="verdict depends on configuration")
    if vectors[0] != vectors[1] or vectors[0] != here:
        raise Violation("outcome vectors differ between configurations / this process: %r vs %r vs %r (configs %r)"
                        % (vectors[0], vectors[1], here, case["configs"]), bucket="verdict depends on configuration")
    return {"nontrivial": len(set(here)) > 1, "labels": ["preimport=%s" % ",".join(case["configs"][0]["preimport"]),
                                                         "ioenc=%s" % case["configs"][0]["PYTHONIOENCODING"]],
            "count": {"calls": len(here), "accepts": here.count("accept")}}


# ---- (b2) a call that dies half-way must not poison later calls --------------------------------------------------------

@st.composite
def _fault_cases(draw):
    c = draw(_config_cases())
    return {"calls": c["calls"], "k": [draw(st.integers(1, 400)) for _ in c["calls"]], "which": draw(st.integers(0, 10 ** 6))}


def _thunk(c):
    if c[0] == "verify_signable":
        return lambda: A.verify_signable(copy.deepcopy(c[1]), c[2], c[3], gpg=c[4])
    if c[0] == "verify_root":
        return lambda: A.verify_root(copy.deepcopy(c[1]), copy.deepcopy(c[2]))
    return lambda: A.verify_delegation(c[1], copy.deepcopy(c[2]), copy.deepcopy(c[3]), gpg=c[4])


def check_fault_then_call(case):
    """Every call of the corpus is first run with an exception injected at a drawn line event (an interrupted call: a
    KeyboardInterrupt, a MemoryError, an I/O error in a diagnostic...), then - in the same process - the whole corpus is
    evaluated normally: every outcome must equal the reference, whatever the interrupted calls left behind."""
    want = []
    for c in case["calls"]:
        want.append(RV.signable(c[1], c[2], c[3], c[4]) if c[0] == "verify_signable" else
                    RV.root_update(c[1], c[2]) if c[0] == "verify_root" else RV.delegation(c[1], c[2], c[3], c[4]))
    interrupted = 0
    kinds = set()
    for c, k in zip(case["calls"], case["k"]):
        mode = k % 4
        if mode == 3:
            # the dependency fails: the k-th C-level call made by repository code raises
            ref = faults.run(_thunk(c), PKG, "/nonexistent-target", granularity="ccall")
            if ref.events:
                tr = faults.run(_thunk(c), PKG, "/nonexistent-target", fault_at=1 + (k // 4) % ref.events, granularity="ccall")
                if tr.outcome == "InjectedFault":
                    interrupted += 1
                    kinds.add("ccall")
            continue
        ref = faults.run(_thunk(c), PKG, "/nonexistent-target", keep_lines=True)
        if ref.events:
            if mode == 0:       # anywhere
                at = 1 + (k // 4) % ref.events
            elif mode == 1:     # late: after the per-entry work, just before the call would conclude
                at = max(1, ref.events - (k // 4) % 6)
            else:               # inside a helper (signature primitives, format checks): the innermost work
                inner = [i + 1 for i, ln in enumerate(ref.lines) if ln[1] not in ("verify_signable", "verify_delegation", "verify_root")]
                at = inner[(k // 4) % len(inner)] if inner else 1 + (k // 4) % ref.events
            tr = faults.run(_thunk(c), PKG, "/nonexistent-target", fault_at=at)
            if tr.outcome == "InjectedFault":
                interrupted += 1
                kinds.add(["anywhere", "late", "helper"][mode])
    for i, (c, w) in enumerate(zip(case["calls"], want)):
        try:
            _thunk(c)()
            o = "accept"
        except Exception as e:
            o = type(e).__name__
        bad = RV.mismatch(w, o)
        if bad:
            raise Violation("after %d interrupted calls in this process, call %d (%s): %s" % (interrupted, i, c[0], bad),
                            bucket="state left behind by an interrupted call")
    return {"nontrivial": interrupted > 0, "labels": ["interrupted=%d" % min(interrupted, 5)] + sorted("fault=" + x for x in kinds),
            "count": {"interrupted_calls": interrupted}}


@st.composite
def _sweep_cases(draw):
    return {"seed": draw(keys.seeds).hex(), "other": draw(keys.seeds).hex(), "payload": draw(G.package_record),
            "entry": draw(st.sampled_from(["verify_signable", "verify_delegation", "verify_root"])), "gpg": draw(st.booleans()),
            "kind": draw(st.sampled_from(["invalid", "valid", "unauthorized"])), "class_offset": draw(st.integers(0, 8))}


def check_fault_sweep(case):
    """Exhaustive interruption of one verification: for k = 1, 2, 3, ... a FRESH envelope (a nonce in the payload, so nothing an
    earlier iteration may have remembered applies to it) is verified with an exception injected at the k-th line event - and, in
    a second pass, in place of the k-th C-level call made by repository code (the crypto dependency, hashing, printing) - until k
    exceeds the length of the run.  After every interruption the very same envelope is verified again normally and must get the
    reference outcome: an interrupted check must leave nothing behind that a later call trusts."""
    seed, other = bytes.fromhex(case["seed"]), bytes.fromhex(case["other"])
    if seed == other:
        other = keys.POOL[11] if seed != keys.POOL[11] else keys.POOL[12]
    pub = keys.pub_hex(seed)
    entry, kind = case["entry"], case["kind"]
    gpg = True if entry == "verify_root" else case["gpg"]
    n_faults = 0

    def build(nonce):
        if entry == "verify_root":
            signed = GM.signed_part("root", {"root": {"pubkeys": [pub], "threshold": 1}, "key_mgr": {"pubkeys": [pub], "threshold": 1}},
                                    version=8, extra={"nonce": nonce})
        elif entry == "verify_delegation":
            signed = GM.signed_part("key_mgr", {"pkg_mgr": {"pubkeys": [pub], "threshold": 1}}, version=1, extra={"nonce": nonce})
        else:
            signed = dict(case["payload"], nonce=nonce)
        env = GM.wrap(signed)
        signer = {"valid": seed, "invalid": seed, "unauthorized": other}[kind]
        GM.sign_envelope(env, [signer], gpg)
        if kind == "invalid":
            e = env["signatures"][pub]
            e["signature"] = e["signature"][:-1] + ("0" if e["signature"][-1] != "0" else "1")
        return env

    T = GM.wrap(GM.signed_part("root", {"root": {"pubkeys": [pub], "threshold": 1}, "key_mgr": {"pubkeys": [pub], "threshold": 1}}, version=7))

    def thunk(env):
        if entry == "verify_root":
            return lambda: A.verify_root(copy.deepcopy(T), copy.deepcopy(env))
        if entry == "verify_delegation":
            return lambda: A.verify_delegation("key_mgr", copy.deepcopy(env), copy.deepcopy(T), gpg=gpg)
        return lambda: A.verify_signable(copy.deepcopy(env), [pub], 1, gpg=gpg)

    want = "accept" if kind == "valid" else "SignatureError"
    fault_base = faults.rotating(case.get("class_offset", 0))
    swallowed = 0
    for gran in ("line", "ccall"):
        k = 0
        while k < 3000:
            k += 1
            env = build("%s-%d" % (gran, k))
            tr = faults.run(thunk(env), PKG, "/nonexistent-target", fault_at=k, granularity=gran, fault_base=fault_base(k))
            if not tr.fired:
                break          # k is beyond the end of the run
            n_faults += 1
            where = str(tr.exc)[:140] if tr.exc is not None else "%s fault %d, %s" % (gran, k, getattr(fault_base(k), "__name__", "Exception"))
            if tr.outcome == "return":
                swallowed += 1
                if want != "accept":
                    raise Violation("%s(gpg=%s) on an envelope with one %s signature: a %s raised inside the call (%s fault %d) was swallowed "
                                    "and the call ACCEPTED although the envelope must be rejected - not fail-closed"
                                    % (entry, gpg, kind, getattr(fault_base(k), "__name__", "Exception"), gran, k),
                                    bucket="fault turns reject into accept")
            tr.exc = None
            try:
                thunk(env)()
                o = "accept"
            except Exception as e:
                o = type(e).__name__
            if o != want:
                raise Violation("%s(gpg=%s) on an envelope with one %s signature was interrupted (%s); the same envelope verified "
                                "again afterwards gives %s instead of %s" % (entry, gpg, kind, where, o, want),
                                bucket="state left behind by an interrupted call")
    # the same under a standard output that fails (dead pipe, full disk, closed, cannot encode): the verifiers print diagnostics
    for hk in hostile.KINDS:
        env = build("stdout-" + hk)
        o = hostile.outcome_under(hk, thunk(env))
        if o == "accept" and want != "accept":
            raise Violation("%s(gpg=%s) on an envelope with one %s signature ACCEPTS when standard output fails (%s) although the "
                            "envelope must be rejected" % (entry, gpg, kind, hk), bucket="failing stdout turns reject into accept")
        try:
            thunk(env)()
            o = "accept"
        except Exception as e:
            o = type(e).__name__
        if o != want:
            raise Violation("%s(gpg=%s): after a call under a failing standard output (%s) the same envelope gives %s instead of %s"
                            % (entry, gpg, hk, o, want), bucket="state left behind by an interrupted call")
    return {"nontrivial": n_faults > 0, "labels": [entry, "kind=" + kind, "gpg" if gpg else "raw"], "count": {"interruptions": n_faults}}


# ---- (d) ambient inputs: environment variables and files the verifiers look at -------------------------------------------

ENV_VALUES = ["1", "0", "true", "yes", "", "debug", "/nonexistent", "never"]


def check_ambient(case):
    """The verifiers take no paths and no configuration: whatever they read besides their arguments is an ambient input.
    A child interpreter records every environment variable read and every file opened from repository code (import time
    included) while the corpus runs; each variable found is then set to a series of values and the outcome vector must not move."""
    base_cfg = dict(case["configs"][0], extra_env={})
    r = configrun.run_child("ambient", case["calls"], base_cfg)
    if not isinstance(r, dict) or "verdicts" not in r:
        raise Violation("child interpreter failed: %s" % (r.get("stderr", "")[-300:] if isinstance(r, dict) else r), bucket="child failed")
    if r["file_opens"]:
        raise Violation("verification opened files although it is given no path: %r" % r["file_opens"][:3],
                        bucket="verifier reads/writes files")
    want = []
    for c in case["calls"]:
        want.append(RV.signable(c[1], c[2], c[3], c[4]) if c[0] == "verify_signable" else
                    RV.root_update(c[1], c[2]) if c[0] == "verify_root" else RV.delegation(c[1], c[2], c[3], c[4]))
    for i, (w, g_) in enumerate(zip(want, r["verdicts"])):
        bad = RV.mismatch(w, g_)
        if bad:
            raise Violation("call %d (%s): %s" % (i, case["calls"][i][0], bad), bucket="verdict wrong in child")
    probes = 0
    for key in r["env_reads"]:
        for val in ENV_VALUES:
            got = configrun.run_child("calls", case["calls"], dict(base_cfg, extra_env={key: val}))
            probes += 1
            if got != r["verdicts"]:
                raise Violation("the library reads the environment variable %s; with %s=%r the outcomes of identical calls change "
                                "from %r to %r" % (key, key, val, r["verdicts"], got), bucket="verdict depends on environment variable")
    return {"nontrivial": len(set(r["verdicts"])) > 1, "labels": ["env-vars-read=%d" % len(r["env_reads"])],
            "count": {"env_probes": probes, "calls": len(want)}}


UNITS = [
    Unit("ambient", check_ambient, strategy=_config_cases, quick=8, thorough=100, shards_quick=8, shrink=False,
         doc="environment variables / files touched by the verifiers are discovered by tracing and then varied"),
    Unit("fault_then_call", check_fault_then_call, strategy=_fault_cases, quick=120, thorough=4000, shards_quick=8,
         doc="calls interrupted by an injected exception at a drawn line, then the same corpus evaluated normally: no poisoned state"),
    Unit("fault_sweep", check_fault_sweep, strategy=_sweep_cases, quick=36, thorough=900, shards_quick=6,
         doc="every line event and every C-level call of a verification interrupted once, each followed by a normal retry"),
    Unit("history", check_history, strategy=_histories, quick=300, thorough=12000, shards_quick=8,
         essential=["repeat", "related_payload", "wrap_as_signable", "verify_delegation"],
         doc="call histories over a shared pool: argument snapshots, determinism, identity independence, wrap copies"),
    Unit("schedule", check_schedule, strategy=_schedules, quick=300, thorough=12000, shards_quick=8,
         essential=["mixed", "switches>=20"], doc="harness-owned line-granular interleavings of 2-3 verifier calls over shared metadata"),
    Unit("stress", check_stress, shrink=False, strategy=_schedules, quick=16, thorough=200, shards_quick=4,
         doc="free-running 8 threads, switch interval 1 microsecond (non-deterministic supporting evidence)"),
    Unit("config", check_config, shrink=False, strategy=_config_cases, quick=16, thorough=300, shards_quick=8,
         doc="same calls in fresh interpreters over two drawn configurations and in this process: identical outcome vectors"),
]
