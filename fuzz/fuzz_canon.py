#!/venv/bin/python
"""atheris target for C07: bytes -> JSON value -> canonserialize; oracle in-target: bytes == independent emitter, parse
round trip, fixpoint, key-order independence."""
import json
import sys

import fuzzlib
from fuzzlib import OracleFailure, flush_stats, stat, depth

try:
    import atheris
    _instrument = atheris.instrument_imports(include=["conda_content_trust", "vlib.ref_canon", "vlib.ref_grammar"])
except ImportError:
    import contextlib
    atheris = None
    _instrument = contextlib.nullcontext()

with _instrument:
    from conda_content_trust import common as C
    from vlib.ref_canon import canon, jeq   # the reference emitter branches per character class: its coverage guides the fuzzer

from vlib import gen_json as G  # noqa: E402


def one_input(data):
    flush_stats()
    try:
        v = json.loads(data[1:].decode("utf-8", "surrogatepass"))      # first byte: corpus mode tag (shared corpus layout)
    except (ValueError, RecursionError, UnicodeDecodeError):
        stat("undecodable")
        return
    if depth(v) > 50:
        return
    # a parser never returns a high surrogate immediately followed by a low one as two code points ... except from
    # escapes like "😀", which json.loads merges; nothing to exclude here.
    stat("json")
    try:
        b = C.canonserialize(v)
    except RecursionError:
        return
    except Exception as e:
        raise OracleFailure("canonserialize raised %s on a parsed JSON value" % type(e).__name__, bucket="canonserialize raises")
    if b != canon(v):
        raise OracleFailure("bytes differ from the published format: %r" % b[:120], bucket="format differs")
    back = json.loads(b)
    if not jeq(back, v):
        raise OracleFailure("parse(canon(v)) != v", bucket="round trip")
    if C.canonserialize(back) != b or C.canonserialize(G.reversed_keys(v)) != b:
        raise OracleFailure("not a fixpoint / depends on key order", bucket="fixpoint/order")


def main():
    atheris.Setup(sys.argv, one_input)
    atheris.Fuzz()


if __name__ == "__main__":
    main()
