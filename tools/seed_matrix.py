#!/usr/bin/env python3
"""Re-run the checks against every seeded change (seeded/<id>/patch.diff) and the own mutants (mutants/*.diff).

  tools/seed_matrix.py [--all] [--mutants] [ids...]

For each change: scratch copy of /repo (outside /repo and /verif), apply the patch, run the quick check of the property
it breaks (or, with --all, all 19 checks), record KILLED / SURVIVED / ERROR, delete the copy.  Results are written to
seeded/<id>/meta.json ("checks") and to seeded/MATRIX.md.  /repo itself is never touched."""
import json
import os
import shutil
import subprocess
import sys
import tempfile
from concurrent.futures import ThreadPoolExecutor

VERIF = os.path.dirname(os.path.dirname(os.path.abspath(__file__)))
PROPS = ["C%02d" % i for i in range(1, 20)]


def run_one(patch, checks):
    scr = tempfile.mkdtemp(prefix="seedmx.")
    repo = os.path.join(scr, "repo")
    res = {}
    try:
        subprocess.run(["rsync", "-a", "--exclude", ".git", "--exclude", "__pycache__", "--exclude", "htmlcov", "/repo/", repo + "/"], check=True)
        p = subprocess.run(["patch", "-p1", "-s", "-i", patch], cwd=repo, stdout=subprocess.PIPE, stderr=subprocess.STDOUT)
        if p.returncode != 0:
            return {c: {"verdict": "PATCH-FAILED"} for c in checks}
        for c in checks:
            env = dict(os.environ, VERIF_REPO=repo, VERIF_OUT_DIR=os.path.join(scr, "out"), VERIF_NPROC=os.environ.get("VERIF_NPROC", "8"))
            env.pop("PYTHONPATH", None)
            q = subprocess.run([os.path.join(VERIF, "vcheck"), c], cwd=VERIF, env=env, stdout=subprocess.PIPE, stderr=subprocess.STDOUT, text=True)
            verdict = {0: "SURVIVED", 1: "KILLED"}.get(q.returncode, "ERROR(%d)" % q.returncode)
            first = next((l.strip() for l in q.stdout.splitlines() if "violation:" in l), "")
            res[c] = {"verdict": verdict, "first_violation": first[:300]}
    finally:
        shutil.rmtree(scr, ignore_errors=True)
    return res


def main():
    args = [a for a in sys.argv[1:] if not a.startswith("--")]
    all_checks = "--all" in sys.argv
    items = []
    sd = os.path.join(VERIF, "seeded")
    for sid in sorted(os.listdir(sd)):
        d = os.path.join(sd, sid)
        if os.path.isdir(d) and os.path.exists(os.path.join(d, "patch.diff")) and (not args or sid in args):
            meta = json.load(open(os.path.join(d, "meta.json")))
            items.append((sid, os.path.join(d, "patch.diff"), meta["breaks_property"], d))
    if "--mutants" in sys.argv:
        sys.path.insert(0, os.path.join(VERIF, "mutants"))
        import make
        make.build()
        for m in make.M:
            name, props = m[0], m[1]
            if not args or name in args:
                items.append((name, os.path.join(VERIF, "mutants", name + ".diff"), props[0], None))
    rows = {}

    def job(it):
        sid, patch, prop, d = it
        checks = PROPS if all_checks else [prop]
        r = run_one(patch, checks)
        if d and "--no-write" not in sys.argv:
            mp = os.path.join(d, "meta.json")
            meta = json.load(open(mp))
            meta["checks"] = dict(meta.get("checks", {}), **r) if not all_checks else r
            with open(mp, "w") as f:
                json.dump(meta, f, indent=1)
        print(sid, prop, {c: v["verdict"] for c, v in r.items() if v["verdict"] != "SURVIVED"} or "SURVIVED everywhere")
        sys.stdout.flush()
        return sid, prop, r

    with ThreadPoolExecutor(max_workers=int(os.environ.get("SEED_JOBS", "2"))) as ex:
        for sid, prop, r in ex.map(job, items):
            rows[sid] = (prop, r)
    # matrix file (seeded changes only)
    lines = ["# Seeded changes x checks", "",
             "Each row is a change to conda/conda-content-trust that breaks the named property while the repository's own tests still",
             "pass (confirmed in a scratch copy, see meta.json). K = the check reports a VIOLATION on the changed tree (quick tier,",
             "VERIF_SEED=1), . = it stays quiet, E = harness error.", ""]
    cols = PROPS if all_checks else None
    if cols:
        lines.append("| change | breaks | " + " | ".join(c[1:] for c in cols) + " |")
        lines.append("|---|---|" + "|".join("---" for _ in cols) + "|")
        for sid, (prop, r) in sorted(rows.items()):
            lines.append("| %s | %s | " % (sid, prop) + " | ".join(
                {"KILLED": "K", "SURVIVED": "."}.get(r.get(c, {}).get("verdict"), "E") for c in cols) + " |")
    else:
        lines.append("| change | breaks | own check |")
        lines.append("|---|---|---|")
        for sid, (prop, r) in sorted(rows.items()):
            lines.append("| %s | %s | %s |" % (sid, prop, r[prop]["verdict"]))
    out = os.path.join(sd, "MATRIX.md" if not args and "--no-write" not in sys.argv else "MATRIX.partial.md")
    with open(out, "w") as f:
        f.write("\n".join(lines) + "\n")
    missed = [sid for sid, (prop, r) in rows.items() if r.get(prop, {}).get("verdict") != "KILLED"]
    print("changes: %d, caught by the check of the property they break: %d, missed: %r" % (len(rows), len(rows) - len(missed), missed))


if __name__ == "__main__":
    main()
