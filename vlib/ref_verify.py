"""R7: threshold counting; R8: delegation rule and root-update rule.  Three-valued.

Expected outcomes are returned as Expect objects:
  Expect.accept()                      the call must return
  Expect.reject({classes})             the call must raise one of these classes (names)
  Expect.gray(...)                     unspecified; nothing is asserted
"""
from . import keys, ref_grammar as g, ref_openpgp, ref_schema
from .ref_canon import canon
from .ref_grammar import GRAY, NO, YES

ARG = frozenset({"TypeError", "ValueError"})
SIG = frozenset({"SignatureError"})
MVE = frozenset({"MetadataVerificationError"})
UNK = frozenset({"UnknownRoleError"})


class Expect:
    def __init__(self, kind, classes=frozenset(), why=""):
        self.kind, self.classes, self.why = kind, frozenset(classes), why

    @classmethod
    def accept(cls, why=""):
        return cls("accept", why=why)

    @classmethod
    def reject(cls, classes, why=""):
        return cls("reject", classes, why)

    @classmethod
    def gray(cls, why=""):
        return cls("gray", why=why)

    def __repr__(self):
        return "Expect(%s %s %s)" % (self.kind, sorted(self.classes), self.why)


def outcome(f, *a, **kw):
    """('accept', None) or (exception class name, exception)"""
    try:
        f(*a, **kw)
        return "accept", None
    except Exception as e:  # noqa: BLE001 - the class is the observation
        return type(e).__name__, e


def mismatch(expect, observed):
    """None if the observed outcome is allowed by expect, else a description."""
    if expect.kind == "gray":
        return None
    if expect.kind == "accept":
        return None if observed == "accept" else "expected acceptance (%s), got %s" % (expect.why, observed)
    if observed == "accept":
        return "expected rejection with %s (%s), but it was accepted" % (sorted(expect.classes), expect.why)
    if observed not in expect.classes:
        return "expected rejection with %s (%s), got %s" % (sorted(expect.classes), expect.why, observed)
    return None


# ---- R7 ------------------------------------------------------------------------------------

def raw_valid(pub_hex, entry, payload):
    return keys.verify_raw(pub_hex, payload, bytes.fromhex(entry["signature"]))


def entry_class(pub_hex, entry, payload, gpg):
    """Classify one signature-map entry for a key that is a well-formed, authorized key.
    'counts'  valid and well-formed in the requested mode (must count: C02; may count: C01)
    'may'     valid only in the other sense C01 allows (raw-valid signature inside an OpenPGP-shaped
              entry in raw mode; OpenPGP-valid entry in raw mode; raw entry in OpenPGP mode is 'no':
              C10 makes OpenPGP mode exact)
    'no'      must not count
    """
    if gpg:
        if g.is_gpg_entry(entry) and ref_openpgp.valid(pub_hex, entry, payload):
            return "counts"
        return "no"
    if g.is_raw_entry(entry):
        return "counts" if raw_valid(pub_hex, entry, payload) else "no"
    if g.is_gpg_entry(entry):
        if raw_valid(pub_hex, entry, payload) or ref_openpgp.valid(pub_hex, entry, payload):
            return "may"
        return "no"
    return "no"


def count_bounds(envelope, authorized, gpg):
    """(lower, upper): numbers of distinct authorized keys that must / may count."""
    payload = canon(envelope["signed"])
    auth = set(authorized)
    lower, upper = set(), set()
    for k, e in envelope["signatures"].items():
        if not g.is_key(k) or k not in auth:
            continue
        c = entry_class(k, e, payload, gpg)
        if c == "counts":
            lower.add(k)
            upper.add(k)
        elif c == "may":
            upper.add(k)
    return len(lower), len(upper)


def counting_keys(envelope, authorized, gpg):
    payload = canon(envelope["signed"])
    auth = set(authorized)
    return [k for k, e in envelope["signatures"].items()
            if g.is_key(k) and k in auth and entry_class(k, e, payload, gpg) == "counts"]


def threshold_args_ok(envelope, authorized, threshold):
    if not ref_schema.is_envelope(envelope):
        return False
    if type(authorized) is not list or not all(g.is_key(k) for k in authorized):
        return False
    if type(threshold) is not int or threshold < 1:
        return False
    return True


def signable(envelope, authorized, threshold, gpg):
    if not threshold_args_ok(envelope, authorized, threshold):
        if threshold is True or (type(threshold) is float and threshold >= 1 and threshold == int(threshold)):
            return Expect.gray("threshold of gray type")
        return Expect.reject(ARG, "invalid arguments")
    lo, up = count_bounds(envelope, authorized, gpg)
    if lo >= threshold:
        return Expect.accept("%d valid authorized signers >= threshold %d" % (lo, threshold))
    if up < threshold:
        return Expect.reject(SIG, "at most %d valid authorized signers < threshold %d" % (up, threshold))
    return Expect.gray("between bounds")


# ---- R8 ------------------------------------------------------------------------------------

def delegation(role, U, T, gpg):
    if type(role) is not str or gpg not in (True, False):
        return Expect.reject(ARG, "bad role/gpg argument")
    t = ref_schema.schema(T)[0]
    if t == NO:
        return Expect.reject(ARG, "trusted metadata not well formed")
    if t == GRAY:
        return Expect.gray("trusted metadata in a gray zone")
    if not ref_schema.is_envelope(U):
        return Expect.reject(ARG, "untrusted argument is not an envelope")
    classes = set()
    u = ref_schema.signed_is_delegating(U["signed"])
    declared = U["signed"].get("type") if type(U["signed"]) is dict else None
    type_mismatch = (type(declared) is str and declared != role)
    if u == YES and type_mismatch:
        classes |= MVE
    dels = T["signed"]["delegations"]
    if role not in dels:
        classes |= UNK
    if classes:
        return Expect.reject(classes, "type mismatch / undelegated role")
    if u == GRAY and type_mismatch:
        # whether the type binding applies is unspecified; a rejection for it is fine, and so is
        # treating the payload as arbitrary signed content
        inner = signable(U, dels[role]["pubkeys"], dels[role]["threshold"], gpg)
        if inner.kind == "reject":
            return Expect.reject(inner.classes | MVE, inner.why)
        return Expect.gray("signed portion in a gray zone and type differs")
    return signable(U, dels[role]["pubkeys"], dels[role]["threshold"], gpg)


def root_update(T, N):
    t, n = ref_schema.schema(T)[0], ref_schema.schema(N)[0]
    if t == NO or n == NO:
        return Expect.reject(ARG, "an argument is not well-formed delegating metadata")
    if t == GRAY or n == GRAY:
        return Expect.gray("an argument sits in a gray zone")
    classes = set()
    why = []
    ts, ns = T["signed"], N["signed"]
    if ts["type"] != "root" or ns["type"] != "root":
        return Expect.reject(ARG, "not both of type root")
    if "root" not in ts["delegations"] or "root" not in ns["delegations"]:
        return Expect.reject(ARG, "a root lacks the root delegation")
    if ns["version"] != ts["version"] + 1:
        classes |= MVE
        why.append("version %r is not %r + 1" % (ns["version"], ts["version"]))
    for name, rule in (("trusted", ts["delegations"]["root"]), ("own", ns["delegations"]["root"])):
        e = signable(N, rule["pubkeys"], rule["threshold"], True)
        if e.kind == "reject":
            classes |= e.classes
            why.append("%s root rule: %s" % (name, e.why))
        elif e.kind == "gray":  # cannot happen in OpenPGP mode (exact), kept for safety
            return Expect.gray("signature count between bounds")
    if classes:
        return Expect.reject(classes, "; ".join(why))
    return Expect.accept("successor version, both root rules met")
