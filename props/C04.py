"""C04 - root chain integrity over arbitrary histories of offered updates (model-based, stateful)."""
import copy
import os
import shutil
import tempfile

from hypothesis import strategies as st

from conda_content_trust import authentication as A, common as C

from vlib import cfgunit, configrun, gen_envelope as GE, gen_json as G, gen_metadata as GM, keys, ref_openpgp, ref_verify as RV
from vlib.ref_canon import canon, jeq
from vlib.runner import Unit, Violation
from vlib import clicheck as _clicheck
from vlib import threaded as _threaded

PROPERTY = "C04"
LEVEL = "exploration"
RULE = ("Histories of 8-40 offers against one client that starts from a generated root and replaces its trusted root "
        "iff verify_root returns. Operations (drawn, with drawn arguments): honest_update (rotate / grow / shrink / "
        "revoke keys, change threshold; signed by thresholds of the current and the new keys), honest_update_undersigned, "
        "replay(i) of any earlier published root, rollback, skip_version, adversary_offer (any version plan, keys and "
        "self-declared rule; signed only by keys the adversary holds - outsiders and keys revoked earlier, never a "
        "threshold of the current root keys - plus signature entries copied verbatim from published roots, spelling "
        "variants of keys, junk), self_appointed, persist_reload (write_metadata_to_file to <version>.root.json, drop the "
        "object, load_metadata_from_file), reask(j) (repeat any earlier question out of order). Invariants after every "
        "step: verdict == independent root-update rule on (current trusted, offer); an adversary offer never changes "
        "the trusted root; the chain of accepted roots has consecutive versions and every link meets the previous "
        "link's root rule; a re-asked question gets its first verdict; a reloaded root equals the in-memory one. "
        "Non-trivial = history with >= 2 accepted updates and >= 1 rejected adversarial / replayed / rolled-back offer.")
ASSUMPTIONS = ["one client; the honest signer loses keys only through the explicit revoke operation",
               "cryptography raw Ed25519 as oracle primitive (cross-checked in C19)"]

NPOOL = 6          # honest pool
ADV = [keys.pool_seed(100 + i) for i in range(2)]
OPS = ["honest", "honest", "honest", "under", "replay", "rollback", "skip", "adv", "adv", "adv", "self", "persist", "reask", "reask"]


@st.composite
def _histories(draw):
    ops = []
    for _ in range(draw(st.integers(8, 40))):
        ops.append([draw(st.sampled_from(OPS)), draw(st.integers(0, 2 ** 16)), draw(st.integers(0, 2 ** 16)),
                    draw(st.integers(0, 2 ** 16))])
    return {"v0": draw(st.sampled_from([1, 1, 2, 41, 2 ** 31 - 1, 2 ** 53, 2 ** 63 - 2])), "mask0": draw(st.integers(1, 2 ** NPOOL - 1)),
            "thr0": draw(st.integers(0, 5)), "ops": ops, "inplace_client": draw(st.booleans())}


def _root(version, key_seeds, thr, extra=None):
    pubs = [keys.pub_hex(s) for s in key_seeds]
    return GM.wrap(GM.signed_part("root", {"root": {"pubkeys": pubs, "threshold": thr},
                                           "key_mgr": {"pubkeys": pubs[:1], "threshold": 1}}, version=version, extra=extra))


def _sign(env, seeds):
    B = canon(env["signed"])
    for s in seeds:
        env["signatures"][keys.pub_hex(s)] = ref_openpgp.entry(s, B)
    return env


def check_history(case):
    pool = [keys.POOL[i] for i in range(NPOOL)]
    cur_keys = GM.subset_by_mask(pool, case["mask0"])
    thr = 1 + case["thr0"] % len(cur_keys)
    version = case["v0"]
    trusted = _sign(_root(version, cur_keys, thr), cur_keys[:thr])
    chain = [copy.deepcopy(trusted)]
    published = [copy.deepcopy(trusted)]
    revoked = []                     # seeds the honest party gave up: the adversary holds them
    asked = []                       # (trusted, offer, verdict)
    d = tempfile.mkdtemp(prefix="c04-")
    accepted = 0
    rejected_hostile = 0
    labs = set()
    try:
        for n, (op, a, b, c) in enumerate(case["ops"]):
            step = "%d:%s" % (n, op)
            labs.add(op)
            hostile = False
            adversarial = False
            offer = None
            if op in ("honest", "under", "rollback", "skip"):
                kind = ["rotate", "grow", "shrink", "revoke", "same", "rethreshold"][a % 6]
                new_keys = list(cur_keys)
                spare = [s for s in pool if s not in cur_keys and s not in revoked]
                if kind == "rotate" and spare:
                    new_keys = new_keys[1:] + spare[:1]
                elif kind == "grow" and spare:
                    new_keys = new_keys + spare[:1]
                elif kind in ("shrink", "revoke") and len(new_keys) > 1:
                    new_keys = new_keys[:-1]
                new_keys = new_keys or list(cur_keys)
                new_thr = 1 + b % len(new_keys)
                nv = {"honest": version + 1, "under": version + 1, "rollback": max(1, version - 1) if version > 1 else version,
                      "skip": version + 2}[op]
                offer = _root(nv, new_keys, new_thr, extra={"note": n} if c % 2 else None)
                old_signers = cur_keys[:thr] if op != "under" else cur_keys[:thr - 1]
                new_signers = new_keys[:new_thr]
                if op == "under" and thr == 1:
                    new_signers = [s for s in new_signers if s not in cur_keys]
                _sign(offer, list(dict.fromkeys(list(old_signers) + list(new_signers))))
                hostile = op in ("rollback", "skip", "under")
                published.append(copy.deepcopy(offer))
                if op == "honest":
                    planned = (new_keys, new_thr, kind)
            elif op == "replay":
                offer = copy.deepcopy(published[a % len(published)])
                hostile = True
            elif op in ("adv", "self"):
                adversarial = True
                hostile = True
                held = ADV + revoked
                if c % 2:
                    held = held + cur_keys[: thr - 1]      # compromised: fewer than the threshold of the current root keys
                # the adversary never holds a threshold of the current root keys
                held_now = [s for s in held if s in cur_keys]
                if len(held_now) >= thr:
                    held = [s for s in held if s not in cur_keys] + held_now[: thr - 1]
                plan = a % 6
                nv = [version + 1, version + 1, version + 1, version, version + 2, 1][plan]
                if op == "self":
                    own = held[: 1 + b % len(held)]
                    own_thr = 1
                else:
                    own = [[*held], cur_keys, cur_keys + held[:1], held[:1]][b % 4]
                    own_thr = [1, thr, len(own)][c % 3] or 1
                offer = _root(nv, own, max(1, own_thr), extra={"evil": n})
                _sign(offer, held)
                B = canon(offer["signed"])
                if c % 3 == 0:       # copy genuine signature entries from published roots
                    src = published[c % len(published)]
                    for k, v in src["signatures"].items():
                        offer["signatures"].setdefault(k, copy.deepcopy(v))
                if c % 5 == 0:       # spelling variants of a key the adversary does hold and that is a current root key
                    for s in [s for s in held if s in cur_keys][:1]:
                        p = keys.pub_hex(s)
                        for v in GE.key_variants(p)[:3]:
                            offer["signatures"][v] = ref_openpgp.entry(s, B)
                if c % 7 == 0:
                    offer["signatures"]["junk-%d" % n] = {"signature": "00" * 64}
            elif op == "persist":
                # conda keeps <version>.root.json files; other clients keep one trusted-root file that is overwritten
                fn = os.path.join(d, "%d.root.json" % version if a % 2 else "trusted_root.json")
                C.write_metadata_to_file(trusted, fn)
                before = copy.deepcopy(trusted)
                trusted = None
                trusted = C.load_metadata_from_file(fn)
                if not jeq(trusted, before):
                    raise Violation("step %s: the trusted root reloaded from %s differs from the one written" % (step, os.path.basename(fn)),
                                    bucket="persisted root differs")
                if open(fn, "rb").read() != canon(before):
                    raise Violation("step %s: persisted root file is not canonical" % step, bucket="persisted root not canonical")
                continue
            elif op == "reask":
                if not asked:
                    continue
                t0, o0, v0 = asked[a % len(asked)]
                o, _ = RV.outcome(A.verify_root, copy.deepcopy(t0), copy.deepcopy(o0))
                if o != v0:
                    raise Violation("step %s: the same (trusted root v%s, offer v%s) question answered %s earlier now answers %s "
                                    "- the verdict depends on earlier offers" % (step, t0["signed"].get("version"),
                                                                                 o0["signed"].get("version"), v0, o),
                                    bucket="verdict depends on history")
                continue
            # ---- ask the library, compare with the rule -------------------------------------------------------
            expect = RV.root_update(trusted, offer)
            t_before = copy.deepcopy(trusted)
            o, exc = RV.outcome(A.verify_root, trusted, offer)
            asked.append((t_before, copy.deepcopy(offer), o))
            if not jeq(trusted, t_before):
                raise Violation("step %s: verify_root modified the trusted root" % step, bucket="trusted root mutated")
            bad = RV.mismatch(expect, o)
            if bad:
                raise Violation("step %s (trusted v%d, %d root keys, threshold %d): %s" % (step, version, len(cur_keys), thr, bad),
                                bucket=("false accept" if o == "accept" else "false reject/class " + o) + " in history")
            if adversarial and o == "accept":
                raise Violation("step %s: an offer signed only by keys the adversary holds (outsiders, revoked keys, fewer than "
                                "the threshold of current root keys) changed the trusted root" % step,
                                bucket="adversary changed trusted root")
            if o == "accept":
                # the client replaces its trusted root
                prev = chain[-1]
                r = prev["signed"]["delegations"]["root"]
                if offer["signed"]["version"] != prev["signed"]["version"] + 1 or \
                        RV.count_bounds(offer, r["pubkeys"], True)[0] < r["threshold"]:
                    raise Violation("step %s: accepted link is not a single version increment signed by the previous link's "
                                    "root threshold" % step, bucket="chain link invalid")
                if case.get("inplace_client"):
                    # a client that keeps ONE dict for its trusted root and overwrites its content
                    trusted.clear()
                    trusted.update(copy.deepcopy(offer))
                else:
                    trusted = copy.deepcopy(offer)
                chain.append(copy.deepcopy(offer))
                version = offer["signed"]["version"]
                pubs_now = offer["signed"]["delegations"]["root"]["pubkeys"]
                new_cur = [s for s in pool + ADV if keys.pub_hex(s) in pubs_now]
                for s in cur_keys:
                    if s not in new_cur and s not in revoked:
                        revoked.append(s)
                cur_keys = new_cur
                thr = offer["signed"]["delegations"]["root"]["threshold"]
                accepted += 1
            elif hostile:
                rejected_hostile += 1
    finally:
        shutil.rmtree(d, ignore_errors=True)
    labs |= {"inplace-client" if case.get("inplace_client") else "rebinding-client", "accepted>=2" if accepted >= 2 else "accepted<2", "revocation" if revoked else "no-revocation"}
    return {"nontrivial": accepted >= 2 and rejected_hostile >= 1, "labels": sorted(labs),
            "count": {"steps": len(case["ops"]), "accepted": accepted, "hostile_rejected": rejected_hostile}}


@st.composite
def _config_cases(draw):
    pool = [keys.POOL[i] for i in range(NPOOL)]
    v = draw(st.sampled_from([1, 7, 2 ** 53]))
    ks = [GM.subset_by_mask(pool, draw(st.integers(1, 2 ** NPOOL - 1))) for _ in range(3)]
    th = [1 + draw(st.integers(0, 5)) % len(k) for k in ks]
    roots = [_root(v + i, ks[i], th[i]) for i in range(3)]
    _sign(roots[0], ks[0][:th[0]])
    for i in (1, 2):
        _sign(roots[i], list(dict.fromkeys(ks[i - 1][:th[i - 1]] + ks[i][:th[i]])))
    adv = _sign(_root(v + 1, ADV, 1, extra={"evil": 1}), ADV)                       # self-appointed
    topped = _sign(_root(v + 1, ks[0] + ADV[:1], 1), ks[0][:th[0] - 1] + ADV[:1])      # < threshold genuine + attacker's own
    calls = [["verify_root", roots[0], roots[1]], ["verify_root", roots[1], roots[2]], ["verify_root", roots[0], roots[2]],
             ["verify_root", roots[0], adv], ["verify_root", roots[0], topped], ["verify_root", roots[1], roots[0]],
             ["verify_root", roots[1], roots[1]]]
    return {"calls": calls, "config": draw(configrun.configs), "bad_stdout": draw(st.sampled_from([None, "closed", "broken"]))}


def check_config(case):
    if case.get("bad_stdout"):
        # stdout that raises (closed: ValueError, dead pipe: OSError): diagnostics may fail, so only "never a wrong accept" is demanded
        v2, _, _ = cfgunit.config_probe(case["calls"], "sound", dict(case["config"], stdout=case["bad_stdout"]))
        if v2[3] == "accept" or v2[4] == "accept":
            raise Violation("an adversarial offer is accepted when stdout is %s" % case["bad_stdout"], bucket="adversary changed trusted root")
    verdicts, labels, count = cfgunit.config_probe(case["calls"], "iff", case["config"])
    if verdicts[3] == "accept" or verdicts[4] == "accept":
        raise Violation("an adversarial offer is accepted under configuration %r" % case["config"], bucket="adversary changed trusted root")
    return {"nontrivial": verdicts[:2] == ["accept", "accept"], "labels": labels, "count": count}


def _interrupted_sweep_cases():
    from props import C12
    return C12._sweep_cases().map(lambda c: dict(c, entry='verify_root', kind=c["kind"] if c["kind"] in ['invalid', 'unauthorized', 'valid'] else 'invalid'))


def check_interrupted_sweep(case):
    from props import C12
    return C12.check_fault_sweep(case)


UNITS = [
    Unit("interrupted_sweep", check_interrupted_sweep, strategy=_interrupted_sweep_cases, quick=18, thorough=500, shards_quick=3,
         doc="every line event and every C-level call of one verify_root interrupted once on a fresh envelope, each followed by a normal retry of the same envelope"),
    Unit("config", check_config, strategy=_config_cases, quick=96, thorough=600, shards_quick=16, shrink=False,
         doc="an honest three-link chain plus adversarial / replayed / rolled-back offers in fresh interpreters under drawn "
             "configurations and discovered environment variables"),
    Unit("history", check_history, strategy=_histories, quick=300, thorough=12000, shards_quick=8,
         essential=["accepted>=2", "revocation", "persist", "reask", "adv", "replay"],
         doc="model-based histories of root update offers with chain invariants after every step"),
    _threaded.unit_threads(PROPERTY),
    _clicheck.unit_cli(),
]
