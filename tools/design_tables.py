#!/usr/bin/env python3
"""Emit the markdown tables of DESIGN.md part II from seeded/*/meta.json and a mutant results file."""
import json
import os
import re
import sys

VERIF = os.path.dirname(os.path.dirname(os.path.abspath(__file__)))


def first_sentence(t):
    t = " ".join(t.split())
    t = re.sub(r"^(Mutation \d+\s*[-:(]*\s*|Change\s*[:(]\s*|MUTATION \d+\s*[-:]*\s*)", "", t, flags=re.I)
    m = re.search(r"(.{40,260}?[.;])\s", t + " ")
    return (m.group(1) if m else t[:240]).replace("|", "/")


def seeds():
    sd = os.path.join(VERIF, "seeded")
    out = ["| id | breaks | what the change is (first sentence of the author's note) | caught by (quick tier) |", "|---|---|---|---|"]
    for sid in sorted(os.listdir(sd)):
        mp = os.path.join(sd, sid, "meta.json")
        if not os.path.exists(mp):
            continue
        m = json.load(open(mp))
        caught = [c for c, v in sorted(m.get("checks", {}).items()) if v.get("verdict") == "KILLED"]
        out.append("| %s | %s | %s | %s |" % (sid, m["breaks_property"], first_sentence(m.get("needs_to_manifest", "")), " ".join(caught) or "-"))
    return "\n".join(out)


if __name__ == "__main__":
    print(seeds())
