"""C17 - CLI exit status and output reflect the library's verdict."""
import copy
import json
import os
import re
import shutil
import subprocess
import sys
import tempfile

from hypothesis import strategies as st

from conda_content_trust import authentication as A, common as C

from props import C02, C03, C11
from vlib import siblings, configrun, gen_deleg, gen_envelope as GE, gen_json as G, gen_metadata as GM, gen_repodata as GR, keys, ref_grammar as g, \
    ref_openpgp, ref_verify as RV
from vlib.ref_canon import canon, jeq
from vlib.runner import REPO, ROOT, Inconclusive, Unit, Violation

PROPERTY = "C17"
LEVEL = "exploration"
RULE = ("Real sub-processes for each way the tool starts: (1) the console script, regenerated from the working tree's "
        "pyproject.toml [project.scripts] with the standard launcher template, (2) python -m conda_content_trust, (3) python "
        "-m conda_content_trust.cli. verify-metadata on generated file pairs: root pairs from the C03 generator (accepting "
        "and every rejecting kind), delegation pairs (untrusted metadata of a drawn type signed for / not for that role, "
        "with raw- or OpenPGP-shaped entries), and malformed inputs (truncated JSON, non-object JSON, missing signed / "
        "type, non-string type, empty, binary, missing file). Oracle: the library's own verdict computed in-process "
        "(verify_root when the untrusted file declares type root, else verify_delegation for its declared type; any "
        "exception = reject): exit status 0 <=> accept, 'verification successful' on stdout <=> accept, identical for "
        "the three entry points. sign-artifacts on generated repodata x key files (valid, upper-case / padded, wrong "
        "length, junk, empty, missing): exit 0 => the file equals the expected signed document (C11 oracle), including "
        "stale entries under the signer's own key. gpg-sign through the securesystemslib stand-in and a private "
        "GNUPGHOME (known / unknown fingerprint, stand-in absent): exit 0 => one more valid OpenPGP-mode signature "
        "under q. Non-trivial = every case (3 processes each); labels give the kinds.")
ASSUMPTIONS = ["the installed /venv/bin/conda-content-trust would not reflect an edit of pyproject.toml; the launcher is "
               "regenerated from [project.scripts] instead (the build backend is not installed)",
               "library verdict computed in the harness process"]

PY = sys.executable
_LAUNCHER = None


def launcher_source():
    """The console-script launcher pip/hatch would generate for [project.scripts] of the working tree."""
    text = open(os.path.join(REPO, "pyproject.toml"), encoding="utf-8").read()
    m = re.search(r"^\[project\.scripts\]\s*\n((?:[^\[\n].*\n|\s*\n)*)", text, re.M)
    if not m:
        raise Violation("pyproject.toml has no [project.scripts] section", bucket="console script entry missing")
    entry = None
    for line in m.group(1).splitlines():
        mm = re.match(r"\s*conda-content-trust\s*=\s*[\"']([\w.]+):([\w.]+)[\"']", line)
        if mm:
            entry = mm.groups()
    if not entry:
        raise Violation("no conda-content-trust console script in [project.scripts]", bucket="console script entry missing")
    mod, func = entry
    return ("#!%s\nimport sys\nfrom %s import %s\nif __name__ == '__main__':\n"
            "    sys.argv[0] = sys.argv[0].removesuffix('.exe')\n    sys.exit(%s())\n" % (PY, mod, func.split(".")[0], func))


def entry_points(d):
    script = os.path.join(d, "conda-content-trust")
    with open(script, "w") as f:
        f.write(launcher_source())
    os.chmod(script, 0o755)
    return [("console-script", [PY, script]), ("python -m conda_content_trust", [PY, "-m", "conda_content_trust"]),
            ("python -m conda_content_trust.cli", [PY, "-m", "conda_content_trust.cli"])]


def run_cli(cmd, args, cwd, extra_path=(), env_extra=None, dead_stdout=False):
    env = {k: v for k, v in os.environ.items() if k not in ("PYTHONPATH", "VERIF_REEXEC")}
    env["PYTHONPATH"] = os.pathsep.join(list(extra_path) + [REPO])
    env["PYTHONDONTWRITEBYTECODE"] = "1"
    env["PYTHONIOENCODING"] = "utf-8"
    env.update(env_extra or {})
    if dead_stdout:
        # stdout is a pipe whose reader has gone away (`... | head -0`, a dead log collector)
        r, w = os.pipe()
        os.close(r)
        try:
            p = subprocess.run(cmd + args, cwd=cwd, env=env, stdout=w, stderr=subprocess.PIPE, timeout=120)
        finally:
            os.close(w)
        return p.returncode, "", p.stderr.decode("utf-8", "replace")
    p = subprocess.run(cmd + args, cwd=cwd, env=env, stdout=subprocess.PIPE, stderr=subprocess.PIPE, timeout=120)
    return p.returncode, p.stdout.decode("utf-8", "replace"), p.stderr.decode("utf-8", "replace")


def library_verdict(tf, uf):
    try:
        # the CONTENT of the two files, parsed by the harness (not by the library's loader: a loader that misreads a file would
        # misread it for the command line and for this oracle alike)
        with open(uf, "rb") as f:
            U = json.load(f)
        with open(tf, "rb") as f:
            T = json.load(f)
        t = U["signed"]["type"]
        if t == "root":
            A.verify_root(T, U)
        else:
            A.verify_delegation(t, U, T)
        return "accept"
    except Exception as e:
        return type(e).__name__


# ---- verify-metadata -----------------------------------------------------------------------------------------------

MALFORMED = ["truncated", "not-object", "no-signed", "no-type", "type-not-string", "empty", "binary", "missing", "type-list"]


@st.composite
def _verify_cases_cfg(draw):
    c = draw(_verify_cases())
    c["config"] = draw(st.one_of(st.none(), configrun.configs))
    c["dead_stdout"] = draw(st.sampled_from([0, 0, 1, 2, 3]))
    # the encodings a JSON text may come in (RFC 8259 / what editors and shells on other platforms write): the tool reads them all
    c["encoding"] = draw(st.sampled_from([None, None, None, "utf-8-sig", "utf-16", "utf-32", "utf-16-le", "utf-16-be", "utf-32-be"]))
    return c


@st.composite
def _verify_cases_ok(draw):
    return draw(_verify_cases(kinds=["root-ok", "delegation-ok", "delegation-ok"]))


@st.composite
def _verify_cases(draw, kinds=("root", "root-ok", "delegation", "delegation-ok", "delegation-ok", "malformed", "malformed", "numeric-spelling", "raw-utf8", "impossible-threshold")):
    kind = draw(st.sampled_from(list(kinds)))
    if kind == "impossible-threshold":
        # a delegation nobody can satisfy (threshold above the number of listed keys), the file signed by every listed key
        seeds = draw(keys.seed_lists(1, 3))
        pubs = [keys.pub_hex(x) for x in seeds]
        utype = draw(st.sampled_from(["key_mgr", "pkg_mgr"]))
        T = GM.wrap(GM.signed_part("root", {utype: {"pubkeys": pubs, "threshold": len(pubs) + draw(st.integers(1, 3))},
                                            "root": {"pubkeys": pubs[:1], "threshold": 1}}, version=3))
        payload = GM.signed_part("key_mgr", {"pkg_mgr": {"pubkeys": pubs[:1], "threshold": 1}}, version=1) if utype == "key_mgr" \
            else dict(draw(G.package_record), type=utype)
        U = GM.sign_envelope(GM.wrap(payload), seeds, False)
        return {"kind": kind, "T": T, "U": U, "flaw": "threshold>keys"}
    if kind == "raw-utf8":
        # files produced by another tool: raw UTF-8 instead of \uXXXX escapes, some of them bigger than any read buffer, with
        # 2-, 3- and 4-byte characters at every offset modulo the usual block sizes
        seeds = draw(keys.seed_lists(1, 2))
        pubs = [keys.pub_hex(x) for x in seeds]
        utype = draw(st.sampled_from(["key_mgr", "pkg_mgr"]))
        T = GM.wrap(GM.signed_part("root", {utype: {"pubkeys": pubs, "threshold": 1}, "root": {"pubkeys": pubs[:1], "threshold": 1}}, version=3))
        text = ("x" * draw(st.integers(0, 8))) + "\u00e9\u20ac\U0001f600" * draw(st.sampled_from([3, 400, 15000, 30000]))
        if utype == "key_mgr":
            payload = GM.signed_part("key_mgr", {"pkg_mgr": {"pubkeys": pubs[:1], "threshold": 1}}, version=1, extra={"note": text})
        else:
            payload = {"type": "pkg_mgr", "name": "caf\u00e9", "summary": text}
        U = GM.sign_envelope(GM.wrap(payload), seeds[:draw(st.integers(0, 1)) + (1 if draw(st.integers(0, 3)) else 0)][:len(seeds)], False)
        return {"kind": kind, "T": T, "U": U, "flaw": "bytes=%d+" % (10000 * (len(text.encode()) // 10000))}
    if kind == "numeric-spelling":
        # numbers as another JSON producer writes them: 2.0 for 2, true for 1 (the library's integer check lets integral
        # floats and booleans through; whatever the library decides, the command line must report exactly that)
        seeds = draw(keys.seed_lists(1, 3))
        pubs = [keys.pub_hex(x) for x in seeds]
        v = draw(st.integers(1, 60))
        spell = draw(st.sampled_from(["float-both", "float-T", "float-N", "true-T", "float-threshold", "float-both-skip"]))
        vT, vN = v, v + (2 if spell == "float-both-skip" else 1)
        if spell in ("float-both", "float-T", "float-both-skip"):
            vT = float(vT)
        if spell in ("float-both", "float-N", "float-both-skip"):
            vN = float(vN)
        if spell == "true-T":
            vT, vN = True, 2
        thr = 1.0 if spell == "float-threshold" else 1
        dele = lambda: {"root": {"pubkeys": pubs, "threshold": thr}, "key_mgr": {"pubkeys": pubs[:1], "threshold": 1}}
        what = draw(st.sampled_from(["root", "root", "key_mgr"]))
        T = GM.wrap(GM.signed_part("root", dele(), version=vT))
        if what == "root":
            U = GM.sign_envelope(GM.wrap(GM.signed_part("root", dele(), version=vN)), seeds, True)
        else:
            U = GM.sign_envelope(GM.wrap(GM.signed_part("key_mgr", {"pkg_mgr": {"pubkeys": pubs[:1], "threshold": thr}}, version=vN)),
                                 seeds[:1], False)
        return {"kind": kind, "T": T, "U": U, "flaw": spell + "/" + what}
    if kind == "root-ok":
        T, N = C02.build_chain(draw(C02._chain_cases()))
        return {"kind": kind, "T": T, "U": N, "flaw": "none"}
    if kind == "delegation-ok":
        seeds = draw(keys.seed_lists(1, 4))
        pubs = [keys.pub_hex(x) for x in seeds]
        thr = draw(st.integers(1, len(seeds)))
        utype = draw(st.sampled_from(["key_mgr", "key_mgr", "pkg_mgr", "some role", "caf\u00e9", "Pkg_Mgr", " pkg_mgr ", "KEY_MGR", "pkg_mgr\n"]))
        T = GM.wrap(GM.signed_part(draw(st.sampled_from(["root", "key_mgr"])), {utype: {"pubkeys": pubs, "threshold": thr},
                                                                                "root": {"pubkeys": pubs[:1], "threshold": 1}}, version=3))
        if utype == "key_mgr":
            payload = GM.signed_part("key_mgr", {"pkg_mgr": {"pubkeys": pubs[:1], "threshold": 1}}, version=None,
                                     timestamp=draw(GM.utc_times))
        else:
            payload = dict(draw(G.package_record), type=utype)
            if draw(st.integers(0, 3)) == 0:
                # leaf content is free to use the library's field names its own way (an "expiration" that is no ...Z string)
                payload[draw(st.sampled_from(["expiration", "timestamp", "version", "delegations"]))] = draw(st.sampled_from(
                    ["2031-07-13T05:46:45+00:00", "2031-07-13T05:46:45.5Z", "2031-07-13", 1594619205, None, "never", [], {"a": 1}]))
        U = GM.sign_envelope(GM.wrap(payload), seeds[:draw(st.integers(thr - 1, len(seeds)))], False)
        for k, v in draw(st.lists(st.tuples(G.strings, GE.JUNK_VALUES), max_size=2)):
            U["signatures"].setdefault(k, v)
        if draw(st.integers(0, 3)) == 0:
            # somebody else's entry of the OTHER kind (well-formed OpenPGP-shaped, under a key or a name that is not ours)
            U["signatures"].setdefault(draw(st.one_of(keys.ghost_keys, st.just("colleague"))),
                                       draw(st.sampled_from([{"other_headers": "04001608", "signature": "cd" * 64},
                                                             {"other_headers": "04", "signature": "ab" * 64, "see_also": "ef" * 20}])))
        return {"kind": kind, "T": T, "U": U, "flaw": "type=" + ("key_mgr" if utype == "key_mgr" else "other")}
    if kind == "root":
        c = draw(C03.root_pairs())
        return {"kind": kind, "T": c["T"], "U": c["N"], "flaw": c["flaw"]}
    if kind == "delegation":
        c = draw(gen_deleg.delegation_cases(force_kind="delegating"))
        U = c["U"]
        # the CLI asks for the role the untrusted file declares
        T = c["T"]
        want = U["signed"]["type"]
        if draw(st.booleans()) and want not in T["signed"]["delegations"] and c["role"] in T["signed"]["delegations"]:
            T["signed"]["delegations"][want] = T["signed"]["delegations"][c["role"]]
        return {"kind": kind, "T": T, "U": U, "flaw": "gpg-entries" if c["gpg"] else "raw-entries"}
    # malformed: a well-formed accepting pair (root chain or delegation) with one side damaged
    base = draw(_verify_cases_ok())
    flaw = draw(st.sampled_from(MALFORMED + ["mutated", "mutated", "mutated"]))
    side = draw(st.sampled_from(["T", "U"]))
    out = {"kind": kind, "T": base["T"], "U": base["U"], "flaw": flaw, "side": side}
    if flaw == "mutated":
        from vlib import gen_mutate as MU
        doc = out[side]
        ps = list(G.paths(doc))
        path = list(ps[draw(st.integers(0, 10 ** 6)) % len(ps)])
        op = MU.OPS[draw(st.integers(0, 10 ** 6)) % len(MU.OPS)]
        r = MU.apply(doc, {"path": path, "op": op})
        if r is MU.INAPPLICABLE:
            r = MU.apply(doc, {"path": path, "op": "replace:%d" % draw(st.integers(0, len(MU.REPLACEMENTS) - 1))})
        out[side] = r
        out["kind"] = "mutated"
    return out


def _write_pair(d, case):
    tf, uf = os.path.join(d, "trusted.json"), os.path.join(d, "untrusted.json")
    for fn, doc in ((tf, case["T"]), (uf, case["U"])):
        with open(fn, "wb") as f:
            if case["kind"] == "raw-utf8":
                f.write(json.dumps(doc, ensure_ascii=False, indent=1).encode("utf-8"))
                continue
            try:
                f.write(canon(doc))
            except TypeError:
                f.write(json.dumps(doc, default=str).encode())
    enc = case.get("encoding")
    if enc and case["kind"] != "malformed":
        for fn, doc in ((tf, case["T"]), (uf, case["U"])):
            try:
                text = json.dumps(doc, ensure_ascii=True, indent=2)
            except (TypeError, ValueError):
                continue
            with open(fn, "wb") as f:
                f.write(text.encode(enc))
    if case["kind"] == "malformed":
        fn = tf if case["side"] == "T" else uf
        if not isinstance(case["T" if case["side"] == "T" else "U"], dict):
            return tf, uf
        doc = copy.deepcopy(case["T"] if case["side"] == "T" else case["U"])
        flaw = case["flaw"]
        data = canon(doc)
        if flaw == "truncated":
            data = data[: len(data) // 2]
        elif flaw == "not-object":
            data = b"[1, 2, 3]"
        elif flaw == "no-signed":
            data = canon({"signatures": doc.get("signatures", {})})
        elif flaw == "no-type":
            if isinstance(doc.get("signed"), dict):
                doc["signed"].pop("type", None)
            data = canon(doc)
        elif flaw == "type-not-string":
            if isinstance(doc.get("signed"), dict):
                doc["signed"]["type"] = 7
            data = canon(doc)
        elif flaw == "type-list":
            if isinstance(doc.get("signed"), dict):
                doc["signed"]["type"] = ["root"]
            data = canon(doc)
        elif flaw == "empty":
            data = b""
        elif flaw == "binary":
            data = bytes(range(256))
        if flaw == "missing":
            os.remove(fn)
        else:
            with open(fn, "wb") as f:
                f.write(data)
    return tf, uf


def _cfg_env(cfg):
    """process configuration of the CLI child taken from a drawn configuration"""
    env = {}
    for k in ("PYTHONHASHSEED", "LC_ALL", "TZ", "PYTHONUTF8", "PYTHONWARNINGS", "PYTHONOPTIMIZE", "PYTHONCOERCECLOCALE"):
        if (cfg or {}).get(k) is not None:
            env[k] = cfg[k]
    return env


def check_verify(case):
    d = tempfile.mkdtemp(prefix="c17-")
    try:
        tf, uf = _write_pair(d, case)
        want = library_verdict(tf, uf)
        results = []
        for name, cmd in entry_points(d):
            rc, out, err = run_cli(cmd, ["verify-metadata", tf, uf], d, env_extra=_cfg_env(case.get("config")))
            ok_text = "verification successful" in out
            results.append((name, rc, ok_text))
            if (rc == 0) != (want == "accept"):
                raise Violation("%s: verify-metadata exits %d although the library %s the untrusted file (%s; %s/%s)"
                                % (name, rc, "accepts" if want == "accept" else "rejects with " + want, case["kind"], case["flaw"],
                                   err.strip().splitlines()[-1][:80] if err.strip() else ""),
                                bucket="exit status %s library verdict [%s]" % ("0 on rejected" if rc == 0 else "non-zero on accepted", name))
            if ok_text != (want == "accept"):
                raise Violation("%s: verify-metadata %s success on stdout although the library verdict is %s"
                                % (name, "reports" if ok_text else "does not report", want), bucket="stdout vs verdict [%s]" % name)
        if len({(r[1] == 0) for r in results}) != 1:
            raise Violation("entry points disagree: %r" % results, bucket="entry points disagree")
        # nobody reads stdout any more: success can no longer be reported, but a rejection must never turn into status 0
        if case.get("dead_stdout") and want != "accept":
            name, cmd = entry_points(d)[case["dead_stdout"] % 3]
            rc, out, err = run_cli(cmd, ["verify-metadata", tf, uf], d, dead_stdout=True)
            if rc == 0:
                raise Violation("%s: with stdout closed by its reader, verify-metadata exits 0 although the library rejects (%s)" % (name, want),
                                bucket="exit status 0 on rejected [dead stdout]")
        # in-process use of the CLI function after other code in the same process loaded the same files and changed ITS
        # copies in memory (never written back): the verdict is about the files
        import contextlib
        import io
        from conda_content_trust import cli as CLI
        for fn in (tf, uf):
            try:
                mine = C.load_metadata_from_file(fn)
            except Exception:
                continue
            if isinstance(mine, dict) and isinstance(mine.get("signed"), dict):
                mine["signed"]["version"] = 4242
                mine["signed"]["in-memory-only"] = True
                if isinstance(mine.get("signatures"), dict):
                    mine["signatures"].clear()
        buf = io.StringIO()
        try:
            with contextlib.redirect_stdout(buf), contextlib.redirect_stderr(io.StringIO()):
                rc = CLI.cli(["verify-metadata", tf, uf])
        except SystemExit as e:
            rc = e.code
        except Exception:
            rc = 1
        if (rc in (0, None)) != (want == "accept"):
            raise Violation("cli(['verify-metadata', ...]) called in-process returns %r although the library verdict on the two FILES is %s "
                            "(other code had loaded the files and modified its in-memory copies)" % (rc, want),
                            bucket="in-process cli status vs verdict on files")
    finally:
        shutil.rmtree(d, ignore_errors=True)
    return {"nontrivial": True, "labels": ["kind=" + case["kind"], "flaw=" + str(case["flaw"]), "library=" + ("accept" if want == "accept" else "reject"),
                                           "configured" if case.get("config") else "default-config", "encoding=%s" % (case.get("encoding") or "utf-8")],
            "count": {"processes": 3}}


# ---- sign-artifacts ---------------------------------------------------------------------------------------------------

KEYFILES = ["valid", "valid", "upper", "padded", "padded-upper", "short", "long", "junk", "empty", "missing", "valid-newline"]
REPOS = ["valid", "valid", "valid", "no-packages", "not-json", "missing", "own-stale"]


@st.composite
def _sign_cases(draw):
    return {"doc": draw(GR.repodata(max_artifacts=4)), "seed": draw(keys.seeds).hex(), "keyfile": draw(st.sampled_from(KEYFILES)),
            "repo": draw(st.sampled_from(REPOS)), "ep": draw(st.integers(0, 2)), "sibling": draw(st.sampled_from(siblings.KINDS))}


def check_sign(case):
    seed = bytes.fromhex(case["seed"])
    pub = keys.pub_hex(seed)
    hx = seed.hex()
    d = tempfile.mkdtemp(prefix="c17s-")
    try:
        kf = os.path.join(d, "key.hex")
        content = {"valid": hx, "upper": hx.upper(), "padded": "  " + hx + " \n\n", "padded-upper": "\t" + hx.upper() + "\n",
                   "short": hx[:-2], "long": hx + "00", "junk": "not a key", "empty": "", "valid-newline": hx + "\n"}.get(case["keyfile"])
        if content is not None:
            with open(kf, "w") as f:
                f.write(content)
        key_ok = case["keyfile"] in ("valid", "upper", "padded", "padded-upper", "valid-newline")
        rf = os.path.join(d, "repodata.json")
        doc = copy.deepcopy(case["doc"])
        if case["repo"] == "no-packages":
            doc.pop("packages", None)
        if case["repo"] == "own-stale":
            # a previous signing run by the same key, after which the metadata was edited / the entries corrupted
            sigs = {}
            for section in ("packages", "packages.conda"):
                for name in doc.get(section, {}):
                    sigs[name] = {pub: {"signature": "ab" * 64}}
            doc["signatures"] = sigs
        original = None
        if case["repo"] == "not-json":
            original = b"{ this is not json"
        elif case["repo"] != "missing":
            original = canon(doc)
        if original is not None:
            with open(rf, "wb") as f:
                f.write(original)
        # left-overs of editors / earlier runs next to the file (a stale lock, a back-up, a half-written temporary)
        siblings.plant(rf, case.get("sibling", "none"))
        name, cmd = entry_points(d)[case["ep"]]
        rc, out, err = run_cli(cmd, ["sign-artifacts", rf, kf], d)
        now = open(rf, "rb").read() if os.path.exists(rf) else None
        signable = key_ok and case["repo"] in ("valid", "own-stale")
        if rc == 0:
            if not signable:
                raise Violation("%s: sign-artifacts exits 0 with key file %r and repodata %r although nothing can be signed"
                                % (name, case["keyfile"], case["repo"]), bucket="sign-artifacts exit 0 without signing")
            exp = canon(C11.expected_after(doc, seed))
            if now != exp:
                raise Violation("%s: sign-artifacts exits 0 but the file is not the expected signed document (key file %r, repodata %r)"
                                % (name, case["keyfile"], case["repo"]), bucket="sign-artifacts exit 0, file not signed correctly")
        else:
            if signable:
                raise Violation("%s: sign-artifacts exits %d on a valid key file (%s) and repodata: %s"
                                % (name, rc, case["keyfile"], err.strip().splitlines()[-1][:100] if err.strip() else out[:100]),
                                bucket="sign-artifacts fails on valid input")
            if now != original:
                raise Violation("%s: sign-artifacts failed (exit %d) but changed the file" % (name, rc), bucket="failed signing changed the file")
    finally:
        shutil.rmtree(d, ignore_errors=True)
    return {"nontrivial": True, "labels": ["key=" + case["keyfile"], "repo=" + case["repo"], "exit=%s" % ("0" if rc == 0 else "nonzero"),
                                           "ep=%d" % case["ep"], "sibling=" + case.get("sibling", "none")], "count": {"processes": 1}}


# ---- gpg-sign -------------------------------------------------------------------------------------------------------------

SHIM = os.path.join(ROOT, "vlib", "gpgshim")
TEST_KEYS = [("tests/testdata/test_key_1_268B62D0.pri.asc", "917adb684e2e9fb5ed4e59909ddd19a1268b62d0",
              "c8bd83b3bfc991face417d97b9c0db011b5d256476b602b92fec92849fc2b36c"),
             ("tests/testdata/test_key_2_7DB43643.pri.asc", "0a14b126c986f276831c7b04134f35b47db43643",
              "a59cea0987ee9046d68d2d011e919eb9278e3f478cca77f5204d65191ff8d7a5")]


@st.composite
def _gpg_cases(draw):
    payload = draw(st.one_of(GM.signed_parts([TEST_KEYS[0][2]]), G.package_record))
    return {"payload": payload, "key": draw(st.integers(0, 1)), "mode": draw(st.sampled_from(["known", "known", "known-spaced",
                                                                                              "unknown", "no-shim", "bad-file"])),
            "ep": draw(st.integers(0, 2))}


def check_gpg(case):
    d = tempfile.mkdtemp(prefix="c17g-")
    home = os.path.join(d, "gnupg")
    os.makedirs(home, mode=0o700)
    try:
        env = {"GNUPGHOME": home}
        path, fpr, q = TEST_KEYS[case["key"]]
        p = subprocess.run(["gpg", "--batch", "--yes", "--import", os.path.join(REPO, path)], env=dict(os.environ, **env),
                           stdout=subprocess.PIPE, stderr=subprocess.PIPE)
        if p.returncode != 0:
            raise Inconclusive("cannot import the test key into a private GNUPGHOME")
        mf = os.path.join(d, "md.json")
        envl = GM.wrap(copy.deepcopy(case["payload"]))
        original = canon(envl) if case["mode"] != "bad-file" else b"[1, 2"
        with open(mf, "wb") as f:
            f.write(original)
        arg = {"known": fpr, "known-spaced": " ".join(fpr.upper()[i:i + 4] for i in range(0, 40, 4)),
               "unknown": "0123456789abcdef0123456789abcdef01234567", "no-shim": fpr, "bad-file": fpr}[case["mode"]]
        name, cmd = entry_points(d)[case["ep"]]
        rc, out, err = run_cli(cmd, ["gpg-sign", arg, mf], d, extra_path=[] if case["mode"] == "no-shim" else [SHIM], env_extra=env)
        now = open(mf, "rb").read()
        should = case["mode"] in ("known", "known-spaced")
        if rc == 0:
            try:
                after = json.loads(now)
                ent = after["signatures"].get(q)
                ok = g.is_gpg_entry(ent) and ref_openpgp.valid(q, ent, canon(after["signed"])) and jeq(after["signed"], case["payload"])
            except Exception:
                ok = False
            if not ok or not should:
                raise Violation("%s: gpg-sign exits 0 (mode %s) but the file does not carry a valid OpenPGP-mode signature under q"
                                % (name, case["mode"]), bucket="gpg-sign exit 0 without signing")
        else:
            if should:
                raise Violation("%s: gpg-sign exits %d with a known key: %s" % (name, rc, err.strip().splitlines()[-1][:120] if err.strip() else ""),
                                bucket="gpg-sign fails on valid input")
            if now != original:
                raise Violation("%s: gpg-sign failed (exit %d, mode %s) but changed the file" % (name, rc, case["mode"]),
                                bucket="failed signing changed the file")
    finally:
        subprocess.run(["gpgconf", "--homedir", home, "--kill", "all"], stdout=subprocess.DEVNULL, stderr=subprocess.DEVNULL)
        shutil.rmtree(d, ignore_errors=True)
    return {"nontrivial": True, "labels": ["mode=" + case["mode"], "exit=%s" % ("0" if rc == 0 else "nonzero"), "ep=%d" % case["ep"]],
            "count": {"processes": 1}}


def enum_fixtures(tier):
    td = "tests/testdata/"
    for a, b in (("1.root.json", "2.root.json"), ("2.root.json", "3.root.json"), ("1.root.json", "3.root.json"), ("1.root.json", "key_mgr.json"),
                 ("3.root.json", "key_mgr.json"), ("key_mgr.json", "1.root.json"), ("key_mgr.json", "key_mgr.json"), ("2.root.json", "1.root.json")):
        yield {"t": td + a, "u": td + b}


def check_fixture(case):
    T = C.load_metadata_from_file(os.path.join(REPO, case["t"]))
    U = C.load_metadata_from_file(os.path.join(REPO, case["u"]))
    return check_verify({"kind": "fixture", "T": T, "U": U, "flaw": os.path.basename(case["t"]) + "->" + os.path.basename(case["u"])})


UNITS = [
    Unit("verify", check_verify, shrink=False, strategy=_verify_cases_cfg, quick=112, thorough=2400, shards_quick=16,
         essential=["library=accept", "library=reject", "kind=malformed", "kind=mutated", "kind=root", "kind=delegation"],
         doc="verify-metadata: exit status / stdout of the three entry points == library verdict"),
    Unit("fixtures", check_fixture, enumerate=enum_fixtures, exhaustive=True, shards_quick=8,
         doc="shipped fixtures through the three entry points"),
    Unit("sign_artifacts", check_sign, shrink=False, strategy=_sign_cases, quick=64, thorough=2400, shards_quick=16,
         doc="sign-artifacts exits 0 only if the file is the expected signed document; failures leave it untouched"),
    Unit("gpg_sign", check_gpg, shrink=False, strategy=_gpg_cases, quick=24, thorough=600, shards_quick=12,
         doc="gpg-sign with real gpg via the stand-in: exit 0 only with a valid new OpenPGP-mode signature under q"),
]
