"""Run a corpus of calls in a fresh interpreter under a generated configuration.

Parent side:  run_child(task, corpus, config) -> list of results (JSON)
Child side :  python configrun.py <task> <corpus-file>   (prints one JSON document)

config keys: PYTHONHASHSEED, LC_ALL, TZ, PYTHONUTF8, PYTHONIOENCODING, cwd ("root"|"scratch"),
preimport (list of module names imported before the library).
"""
import hashlib
import json
import os
import subprocess
import sys
import tempfile

from hypothesis import strategies as st

HERE = os.path.dirname(os.path.abspath(__file__))
ROOT = os.path.dirname(HERE)
REPO = os.environ.get("VERIF_REPO", "/repo")

PREIMPORTS = [[], ["cryptography.hazmat.backends"], ["ssl"], ["hashlib", "json"],
              ["cryptography.hazmat.primitives.hashes"], ["decimal", "locale"]]

CLOCKS = ["2027-01-31T12:00:00", "2028-02-29T12:00:00", "2027-03-31T23:59:58", "2027-12-31T23:59:58", "2028-01-01T00:00:00",
          "2027-10-31T01:30:00", "2038-01-19T03:14:07", "2027-05-31T08:00:00", "2027-01-29T00:00:01", "2027-08-31T16:00:00", "2028-02-28T23:59:59"]

configs = st.fixed_dictionaries({
    "PYTHONHASHSEED": st.sampled_from(["0", "1", "4242", "random"]),
    "LC_ALL": st.sampled_from(["C", "C.UTF-8", "POSIX", None]),
    "TZ": st.sampled_from(["UTC", "Pacific/Kiritimati", "America/St_Johns", None]),
    "PYTHONUTF8": st.sampled_from(["0", "1", None]),
    "PYTHONIOENCODING": st.sampled_from(["utf-8", "ascii", "latin-1", "ascii:strict", None]),
    "PYTHONWARNINGS": st.sampled_from([None, None, "error", "default"]),
    "PYTHONOPTIMIZE": st.sampled_from([None, None, "1", "2"]),
    "logging": st.sampled_from([None, None, "DEBUG", "INFO"]),
    "PYTHONCOERCECLOCALE": st.sampled_from([None, "0", "0"]),
    "cwd": st.sampled_from(["root", "scratch"]),
    "preimport": st.sampled_from(PREIMPORTS),
    # the wall clock of the child (None = the real one): month ends, the leap day, year ends, the 32-bit rollover
    "clock": st.one_of(st.none(), st.sampled_from(CLOCKS)),
})


def with_ascii_locale(cfg):
    """The configuration under which Python's locale encoding really is ASCII (no UTF-8 mode, no C-locale coercion)."""
    return dict(cfg, LC_ALL="C", PYTHONUTF8="0", PYTHONCOERCECLOCALE="0")


def run_child(task, corpus, config, timeout=120):
    from . import tagjson
    d = tempfile.mkdtemp(prefix="cfgrun-")
    try:
        cf = os.path.join(d, "corpus.json")
        with open(cf, "w", encoding="utf-8") as f:
            f.write(tagjson.dumps(corpus))
        env = {k: v for k, v in os.environ.items()
               if k not in ("PYTHONHASHSEED", "LC_ALL", "LANG", "TZ", "PYTHONUTF8", "PYTHONIOENCODING", "PYTHONWARNINGS", "PYTHONOPTIMIZE", "PYTHONCOERCECLOCALE", "LC_CTYPE")}
        for k in ("PYTHONHASHSEED", "LC_ALL", "TZ", "PYTHONUTF8", "PYTHONIOENCODING", "PYTHONWARNINGS", "PYTHONOPTIMIZE", "PYTHONCOERCECLOCALE"):
            if config.get(k) is not None:
                env[k] = config[k]
        env["PYTHONPATH"] = os.pathsep.join([REPO, ROOT])
        env["PYTHONDONTWRITEBYTECODE"] = "1"
        env["VERIF_PREIMPORT"] = ",".join(config.get("preimport") or [])
        env["VERIF_LOGGING"] = config.get("logging") or ""
        env["VERIF_STDOUT"] = config.get("stdout") or ""
        env["VERIF_CLOCK"] = config.get("clock") or ""
        for k, v in (config.get("extra_env") or {}).items():
            env[k] = v
        cwd = "/" if config.get("cwd") == "root" else d
        outf = os.path.join(d, "out.json")
        p = subprocess.run([sys.executable, os.path.join(HERE, "configrun.py"), task, cf, outf],
                           env=env, cwd=cwd, stdout=subprocess.PIPE, stderr=subprocess.PIPE,
                           timeout=timeout)
        if p.returncode != 0 or not os.path.exists(outf):
            return {"child_failed": p.returncode, "stderr": p.stderr.decode("utf-8", "replace")[-2000:]}
        return json.load(open(outf, encoding="utf-8"))
    finally:
        import shutil
        shutil.rmtree(d, ignore_errors=True)


# ------------------------------------------------------------------------------------------
# child side

def _verdict(f, *a, **kw):
    try:
        f(*a, **kw)
        return "accept"
    except BaseException as e:
        return type(e).__name__


class _EnvRecorder(dict):
    pass


def _install_env_recorder(reads):
    """Record which environment variables are read from code living in the repository package (import time included)."""
    real = os.environ
    pkg = os.path.join(os.path.realpath(REPO), "conda_content_trust") + os.sep

    def note(key):
        # attribute the read to the first frame outside os.py: only reads made BY repository code count (not e.g. argparse
        # asking for COLUMNS while the CLI prints a usage message)
        f = sys._getframe(2)
        for _ in range(4):
            if f is None:
                return
            fn = f.f_code.co_filename
            if os.path.basename(fn) in ("os.py", "<frozen os>") or fn.startswith("<frozen"):
                f = f.f_back
                continue
            if os.path.realpath(fn).startswith(pkg):
                reads.add(str(key))
            return

    class Proxy(type(real)):
        pass

    orig_getitem = type(real).__getitem__
    orig_get = type(real).get
    orig_contains = type(real).__contains__

    def __getitem__(self, k):
        note(k)
        return orig_getitem(self, k)

    def get(self, k, default=None):
        note(k)
        return orig_get(self, k, default)

    def __contains__(self, k):
        note(k)
        return orig_contains(self, k)
    Proxy.__getitem__, Proxy.get, Proxy.__contains__ = __getitem__, get, __contains__
    real.__class__ = Proxy


def _install_clock(iso):
    """Make the child believe it is `iso` (UTC) now: datetime.datetime.now / utcnow / today, datetime.date.today and time.time
    are shifted by a constant offset, before the library is imported (it binds `datetime` at import time)."""
    import datetime as _dt
    import time as _time
    real_time = _time.time
    target = _dt.datetime.strptime(iso, "%Y-%m-%dT%H:%M:%S").replace(tzinfo=_dt.timezone.utc).timestamp()
    offset = target - real_time()
    real_datetime, real_date = _dt.datetime, _dt.date

    def fake_time():
        return real_time() + offset

    class FakeDateTime(real_datetime):
        @classmethod
        def now(cls, tz=None):
            return cls.fromtimestamp(fake_time(), tz)

        @classmethod
        def utcnow(cls):
            return cls.fromtimestamp(fake_time(), _dt.timezone.utc).replace(tzinfo=None)

        @classmethod
        def today(cls):
            return cls.fromtimestamp(fake_time())

    class FakeDate(real_date):
        @classmethod
        def today(cls):
            return cls.fromtimestamp(fake_time())

    FakeDateTime.__name__ = FakeDateTime.__qualname__ = "datetime"
    FakeDate.__name__ = FakeDate.__qualname__ = "date"
    _dt.datetime, _dt.date, _time.time = FakeDateTime, FakeDate, fake_time


def _child(task, corpus_file, outf):
    if os.environ.get("VERIF_CLOCK"):
        _install_clock(os.environ["VERIF_CLOCK"])
    env_reads = set()
    file_opens = []
    if task in ("ambient", "unit"):
        _install_env_recorder(env_reads)
    for m in filter(None, os.environ.get("VERIF_PREIMPORT", "").split(",")):
        __import__(m)
    if os.environ.get("VERIF_LOGGING"):
        import logging
        logging.basicConfig(level=getattr(logging, os.environ["VERIF_LOGGING"]), stream=open(os.devnull, "w"))
    sys.path.insert(0, ROOT)
    from vlib import tagjson
    corpus = tagjson.loads(open(corpus_file, encoding="utf-8").read())
    import conda_content_trust
    assert os.path.realpath(conda_content_trust.__file__).startswith(os.path.realpath(REPO) + os.sep)
    from conda_content_trust import authentication as A, common as C
    out = []
    if os.environ.get("VERIF_STDOUT") == "closed":
        sys.stdout.close()
    if os.environ.get("VERIF_STDOUT") == "broken":
        class _Broken:
            encoding = "utf-8"

            def write(self, s):
                raise BrokenPipeError(32, "Broken pipe")

            def flush(self):
                raise BrokenPipeError(32, "Broken pipe")
        sys.stdout = _Broken()
    if task == "persist":
        # corpus: list of JSON documents; each is written with the library, read back raw and through the loader
        import tempfile
        d = tempfile.mkdtemp(prefix="persist-")
        for i, doc in enumerate(corpus):
            fn = os.path.join(d, "m%d.json" % i)
            if isinstance(doc, dict) and set(doc) == {"rawfile"}:
                # a file as an external tool wrote it (raw UTF-8, any whitespace): only the loader is exercised
                try:
                    with open(fn, "wb") as f:
                        f.write(doc["rawfile"])
                    back = C.load_metadata_from_file(fn)
                    out.append(["-", hashlib.sha256(C.canonserialize(back)).hexdigest()])
                except BaseException as e:
                    out.append(["raise:" + type(e).__name__, ""])
                continue
            try:
                with open(fn, "wb") as f:
                    f.write(b"previous content of the file, longer than nothing\n" * 3)
                C.write_metadata_to_file(doc, fn)
                raw = open(fn, "rb").read()
                back = C.load_metadata_from_file(fn)
                out.append([hashlib.sha256(raw).hexdigest(), hashlib.sha256(C.canonserialize(back)).hexdigest()])
            except BaseException as e:
                out.append(["raise:" + type(e).__name__, ""])
        import shutil
        shutil.rmtree(d, ignore_errors=True)
    if task == "ambient":
        import builtins
        pkg = os.path.join(os.path.realpath(REPO), "conda_content_trust") + os.sep
        real_open = builtins.open

        def rec_open(file, *a, **kw):
            f = sys._getframe(1)
            for _ in range(6):
                if f is None:
                    break
                if os.path.realpath(f.f_code.co_filename).startswith(pkg):
                    file_opens.append(str(file))
                    break
                f = f.f_back
            return real_open(file, *a, **kw)
        builtins.open = rec_open
        task = "calls"
    if task == "persist":
        pass
    elif task == "unit":
        # corpus: {"prop", "unit", "cases"}: the unit's own oracle, run inside this configured interpreter
        import importlib
        mod = importlib.import_module("props." + corpus["prop"])
        unit = next(u for u in mod.UNITS if u.name == corpus["unit"])
        from vlib.runner import Violation
        import io
        real_stdout = sys.stdout
        for case in corpus["cases"]:
            if unit.stdout == "sink" and os.environ.get("VERIF_STDOUT") not in ("closed", "broken"):
                sys.stdout = io.StringIO()
            try:
                unit.check(case)
                out.append(None)
            except Violation as v:
                out.append({"violation": v.msg, "bucket": v.bucket})
            except Exception as e:      # harness trouble inside the child: reported, never counted as a violation
                import traceback
                out.append({"error": "%s: %s" % (type(e).__name__, e), "trace": traceback.format_exc()[-1200:]})
            finally:
                sys.stdout = real_stdout
    elif task == "canon":
        for v in corpus:
            out.append(hashlib.sha256(C.canonserialize(v)).hexdigest())
    elif task == "calls":
        # corpus: list of [fname, args...]; stdout is the real (configured) stdout of the child
        def via_file(i, doc):
            """every other metadata argument takes the way real metadata takes: written to a file by ANOTHER tool (raw UTF-8, not
            escaped) and read back with the library's loader, under this child's locale / encoding settings"""
            if sys.argv[1] != "calls" or i % 2 == 0 or not isinstance(doc, dict):
                return doc
            import tempfile
            try:
                data = json.dumps(doc, ensure_ascii=False, indent=1).encode("utf-8")
            except (UnicodeEncodeError, TypeError, ValueError):
                return doc
            d = tempfile.mkdtemp(prefix="viafile-")
            try:
                fn_ = os.path.join(d, "m.json")
                with open(fn_, "wb") as f:
                    f.write(data)
                return C.load_metadata_from_file(fn_)
            finally:
                import shutil
                shutil.rmtree(d, ignore_errors=True)

        for i_call, call in enumerate(corpus):
            fn, args = call[0], call[1:]
            try:
                if fn == "verify_delegation":
                    args = [args[0], via_file(i_call, args[1]), via_file(i_call, args[2]), args[3]]
                elif fn == "verify_root":
                    args = [via_file(i_call, args[0]), via_file(i_call, args[1])]
            except BaseException as e:      # noqa: BLE001 - the loader's failure is the outcome of this call
                out.append("loader:" + type(e).__name__)
                continue
            if fn == "verify_signable":
                out.append(_verdict(A.verify_signable, args[0], args[1], args[2], gpg=args[3]))
            elif fn == "verify_delegation":
                out.append(_verdict(A.verify_delegation, args[0], args[1], args[2], gpg=args[3]))
            elif fn == "verify_root":
                out.append(_verdict(A.verify_root, args[0], args[1]))
            elif fn == "verify_gpg_signature":
                out.append(_verdict(A.verify_gpg_signature, args[0], args[1], args[2]))
            else:
                out.append("unknown-call")
    else:
        raise SystemExit("unknown task")
    if os.environ.get("VERIF_STDOUT") == "broken":
        sys.stdout = open(os.devnull, "w")       # (the interpreter flushes sys.stdout at exit)
    if sys.argv[1] == "ambient":
        out = {"verdicts": out, "env_reads": sorted(env_reads), "file_opens": file_opens}
    if sys.argv[1] == "unit":
        out = {"results": out, "env_reads": sorted(env_reads)}
    with open(outf, "w", encoding="utf-8") as f:
        json.dump(out, f)


if __name__ == "__main__":
    _child(sys.argv[1], sys.argv[2], sys.argv[3])
