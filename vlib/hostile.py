"""A standard output that fails, in-process: the library prints diagnostics while it verifies, and print() on a dead pipe, a
full disk, a closed or an ASCII-only stream raises.  under(kind) swaps sys.stdout for such a stream for the duration of a call."""
import contextlib
import errno
import sys

KINDS = ["epipe", "enospc", "closed", "ebadf", "ascii-strict"]


class _Failing:
    encoding = "utf-8"
    errors = "strict"

    def __init__(self, kind):
        self.kind = kind
        self.writes = 0

    def write(self, s):
        self.writes += 1
        k = self.kind
        if k == "epipe":
            raise BrokenPipeError(errno.EPIPE, "Broken pipe")
        if k == "enospc":
            raise OSError(errno.ENOSPC, "No space left on device")
        if k == "ebadf":
            raise OSError(errno.EBADF, "Bad file descriptor")
        if k == "closed":
            raise ValueError("I/O operation on closed file.")
        s.encode("ascii")           # "ascii-strict": only non-ASCII text fails
        return len(s)

    def flush(self):
        pass

    def isatty(self):
        return False

    def fileno(self):
        raise OSError(errno.EBADF, "Bad file descriptor")

    def writable(self):
        return True


@contextlib.contextmanager
def under(kind):
    old = sys.stdout
    f = _Failing(kind)
    sys.stdout = f
    try:
        yield f
    finally:
        sys.stdout = old


def outcome_under(kind, thunk):
    """'accept' or the exception class name of thunk() run with a failing standard output"""
    with under(kind):
        try:
            thunk()
            return "accept"
        except Exception as e:      # noqa: BLE001 - the outcome is the observation
            return type(e).__name__


def never_accepts(thunk_factory, what, why=""):
    """For a call the reference rejects: under every kind of failing standard output the call may raise whatever it likes, but
    it must not return normally (a diagnostic that cannot be printed must not switch a check off).  thunk_factory() -> a fresh
    zero-argument callable (fresh copies of the arguments) per kind.  Returns the number of probes."""
    from .runner import Violation
    for kind in KINDS:
        if outcome_under(kind, thunk_factory()) == "accept":
            raise Violation("%s returns normally when standard output fails (%s) although the reference rejects it%s"
                            % (what, kind, (" (" + why + ")") if why else ""), bucket="failing stdout turns reject into accept")
    return len(KINDS)
