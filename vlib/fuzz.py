"""Coverage-guided tier: run an atheris (libFuzzer) campaign of a target in fuzz/ as a sub-process.

A campaign is a plain-data case {"target", "corpus": "empty"|"seeded", "runs", "shard"}.  The target holds
the semantic oracle itself; when it fails, libFuzzer stores the input as an artifact, the campaign reads it
back, attaches it to the case ("failing_input") and raises Violation - so the replay file carries the input,
and replaying runs the target's oracle on exactly that input in-process, without atheris."""
import glob
import importlib
import os
import shutil
import subprocess
import sys
import tempfile

from .runner import REPO, ROOT, Violation, derive_seed

DEPS = os.path.join(ROOT, ".deps")
FUZZ_DIR = os.path.join(ROOT, "fuzz")


def available():
    return os.path.isdir(os.path.join(DEPS, "atheris"))


HEAVY = {"C13", "C14"}      # targets that make ~15 verifier calls per input (about 1 000 exec/s)


def campaigns(tier, prop):
    runs = 12000 if tier == "quick" else (300000 if prop in HEAVY else 2000000)
    n = 2 if tier == "quick" else 8
    for i in range(n):
        for corpus in ("empty", "seeded"):
            yield {"corpus": corpus, "runs": runs, "shard": i, "seed": int(os.environ.get("VERIF_SEED", "1") or 1)}


def _load_target(target):
    if FUZZ_DIR not in sys.path:
        sys.path.insert(0, FUZZ_DIR)
    return importlib.import_module(target)


def run_campaign(target, case, prop):
    mod = _load_target(target)
    if "failing_input" in case:       # replay of a stored failure: the oracle, in-process
        try:
            mod.one_input(case["failing_input"])
        except mod.OracleFailure as e:
            raise Violation(str(e), bucket=getattr(e, "bucket", None) or "fuzz " + target)
        return {"nontrivial": False, "labels": ["replayed-input"]}
    if not available():
        return {"nontrivial": False, "labels": ["atheris-unavailable"]}
    d = tempfile.mkdtemp(prefix="fuzz-")
    try:
        corpus = os.path.join(d, "corpus")
        os.makedirs(corpus)
        if case["corpus"] == "seeded":
            for f in glob.glob(os.path.join(REPO, "tests", "testdata", "*.json")) + glob.glob(os.path.join(REPO, "demo", "*.json")):
                if os.path.getsize(f) < 20000:
                    data = open(f, "rb").read()
                    for mode in (0, 2):
                        with open(os.path.join(corpus, "%d-%s" % (mode, os.path.basename(f))), "wb") as g:
                            g.write(bytes([mode]) + data)
        art = os.path.join(d, "art") + os.sep
        os.makedirs(art)
        env = dict(os.environ, PYTHONPATH=os.pathsep.join([DEPS, REPO, ROOT, FUZZ_DIR]), VERIF_REPO=REPO,
                   PYTHONDONTWRITEBYTECODE="1", VERIF_FUZZ_STATS=os.path.join(d, "stats.txt"))
        seed = derive_seed(case["seed"], prop, target, case["shard"], case["corpus"]) % (2 ** 31 - 1) + 1
        cmd = [sys.executable, os.path.join(FUZZ_DIR, target + ".py"), "-runs=%d" % case["runs"], "-seed=%d" % seed,
               "-max_len=3000", "-artifact_prefix=" + art, "-print_final_stats=1", "-timeout=30", "-rss_limit_mb=4096",
               corpus]
        p = subprocess.run(cmd, env=env, cwd=d, stdout=subprocess.PIPE, stderr=subprocess.STDOUT, timeout=6 * 3600)
        out = p.stdout.decode("utf-8", "replace")
        arts = sorted(glob.glob(art + "*"))
        execs = 0
        for line in out.splitlines():
            if line.startswith("stat::number_of_executed_units:"):
                execs = int(line.split(":")[-1])
        if arts:
            data = open(arts[0], "rb").read()
            case["failing_input"] = data
            kind = os.path.basename(arts[0]).split("-")[0]
            try:
                mod.one_input(data)
                msg = "libFuzzer reported %s on an input whose oracle passes when replayed: %s" % (kind, out[-400:])
                if kind in ("timeout", "oom", "slow"):
                    from .runner import Inconclusive
                    raise Inconclusive("fuzz campaign %s: %s" % (target, kind))
            except mod.OracleFailure as e:
                raise Violation("%s [found by atheris, corpus=%s, input of %d bytes]" % (e, case["corpus"], len(data)),
                                bucket=getattr(e, "bucket", None) or "fuzz " + target)
            raise Violation(msg, bucket="fuzz nondeterministic " + target)
        if p.returncode != 0:
            from .runner import Inconclusive
            raise Inconclusive("fuzz target %s exited %d: %s" % (target, p.returncode, out[-600:]))
        ncorp = len(os.listdir(corpus))
        stats = {}
        if os.path.exists(env["VERIF_FUZZ_STATS"]):
            for line in open(env["VERIF_FUZZ_STATS"]):
                k, _, v = line.rpartition("=")
                stats[k.strip()] = int(v)
        return {"nontrivial": True, "labels": ["corpus=" + case["corpus"]],
                "count": dict({"fuzz_executions": execs, "corpus_units_at_end": ncorp}, **stats)}
    finally:
        shutil.rmtree(d, ignore_errors=True)
