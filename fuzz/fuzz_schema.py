#!/venv/bin/python
"""atheris target for C14: bytes -> JSON document -> checkformat_delegating_metadata; the oracle (checker verdict ==
independent three-valued schema) lives in the target."""
import copy
import sys

import fuzzlib
from fuzzlib import OracleFailure, decode, flush_stats, stat

try:
    import atheris
    _instrument = atheris.instrument_imports(include=["conda_content_trust"])
except ImportError:
    import contextlib
    atheris = None
    _instrument = contextlib.nullcontext()

with _instrument:
    from conda_content_trust import common as C

from vlib import ref_schema  # noqa: E402


def one_input(data):
    d = decode(data)
    flush_stats()
    if d is None:
        return
    mode, doc = d
    want, reasons = ref_schema.schema(doc)
    stat("schema=" + want)
    try:
        C.checkformat_delegating_metadata(copy.deepcopy(doc))
        got = "accept"
    except (TypeError, ValueError):
        got = "reject"
    except RecursionError:
        return
    except Exception as e:
        raise OracleFailure("checkformat_delegating_metadata raised %s (%s)" % (type(e).__name__, str(e)[:100]),
                            bucket="checker raises " + type(e).__name__)
    if want == "yes" and got != "accept":
        raise OracleFailure("checker rejects a document the schema allows", bucket="rejects valid")
    if want == "no" and got != "reject":
        raise OracleFailure("checker accepts a document outside the schema; violated: %s" % (reasons[:3],),
                            bucket="accepts invalid: " + (reasons[0][0] if reasons else "?"))


def main():
    atheris.Setup(sys.argv, one_input)
    atheris.Fuzz()


if __name__ == "__main__":
    main()
