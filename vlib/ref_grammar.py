"""R3: leaf grammars, stated as regexes / explicit predicates (no bytes.fromhex, no isalnum,
no strptime).  Three-valued where the property text leaves a verdict open: YES / NO / GRAY."""
import re

YES, NO, GRAY = "yes", "no", "gray"

_KEY = re.compile(r"[0-9a-f]{64}", re.ASCII)
_SIG = re.compile(r"[0-9a-f]{128}", re.ASCII)
_FPR = re.compile(r"[0-9a-f]{40}", re.ASCII)
_HEX = re.compile(r"(?:[0-9a-f]{2})+", re.ASCII)


def is_key(x):
    return type(x) is str and _KEY.fullmatch(x) is not None


def is_sig(x):
    return type(x) is str and _SIG.fullmatch(x) is not None


def is_fingerprint(x):
    return type(x) is str and _FPR.fullmatch(x) is not None


def is_hex(x):
    """non-empty, even-length, lower-case ASCII hex"""
    return type(x) is str and _HEX.fullmatch(x) is not None


def is_raw_entry(x):
    return type(x) is dict and set(x) == {"signature"} and is_sig(x["signature"])


def is_gpg_entry(x):
    if type(x) is not dict:
        return False
    ks = set(x)
    if ks != {"other_headers", "signature"} and ks != {"other_headers", "signature", "see_also"}:
        return False
    if not is_hex(x["other_headers"]) or not is_sig(x["signature"]):
        return False
    if "see_also" in x and not is_fingerprint(x["see_also"]):
        return False
    return True


def is_any_entry(x):
    return is_raw_entry(x) or is_gpg_entry(x)


# ---- UTC time -------------------------------------------------------------------------

_STRICT = re.compile(r"([0-9]{4})-([0-9]{2})-([0-9]{2})T([0-9]{2}):([0-9]{2}):([0-9]{2})Z", re.ASCII)
_LENIENT = re.compile(r"[+-]?(\d{1,6})-(\d{1,2})-(\d{1,2})[Tt](\d{1,2}):(\d{1,2}):(\d{1,2})(?:[.,]\d+)?[Zz]",
                      re.UNICODE)
_DIM = [31, 28, 31, 30, 31, 30, 31, 31, 30, 31, 30, 31]


def _leap(y):
    return y % 4 == 0 and (y % 100 != 0 or y % 400 == 0)


def _calendar(y, mo, d, h, mi, s, max_hour=23, max_sec=59, min_year=1):
    if not (min_year <= y <= 9999 and 1 <= mo <= 12):
        return False
    dim = _DIM[mo - 1] + (1 if mo == 2 and _leap(y) else 0)
    return 1 <= d <= dim and 0 <= h <= max_hour and 0 <= mi <= 59 and 0 <= s <= max_sec


def utc_time(x):
    """YES: strict yyyy-mm-ddThh:mm:ssZ over ASCII digits naming a real instant (year 1..9999).
    GRAY: a looser spelling some reading of 'ISO 8601 UTC time' accepts (unpadded fields, other
    digits, lower-case t/z (the letter T is required), leap second, year 0, hour 24, a fraction, a sign).
    NO: everything else, including every non-str and every string with characters before or after the time (white space, a
    trailing newline: no reading of ISO 8601 has them, and 'regex with $' accepting "...Z\n" is the classic way they get in)."""
    if type(x) is not str:
        return NO
    m = _STRICT.fullmatch(x)
    if m and _calendar(*(int(g) for g in m.groups())):
        return YES
    m = _LENIENT.fullmatch(x)
    if m:
        try:
            f = [int(g) for g in m.groups()]
        except ValueError:
            return NO
        if _calendar(*f, max_hour=24, max_sec=61, min_year=0):
            return GRAY
    return NO


def natural_int(x):
    """YES: an int >= 1.  GRAY: True, or a float with an integral value >= 1 (JSON 2.0 is integral
    as a number, not as a Python type).  NO: everything else."""
    if type(x) is int:
        return YES if x >= 1 else NO
    if x is True:
        return GRAY
    if isinstance(x, int) and type(x) is not bool:
        return GRAY if x >= 1 else NO       # instance of an int subclass: unreachable from JSON, not asserted
    if type(x) is float:
        if x != x or x in (float("inf"), float("-inf")):
            return NO
        return GRAY if (x >= 1 and x == int(x)) else NO
    return NO
