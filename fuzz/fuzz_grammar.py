#!/venv/bin/python
"""atheris target for C15: bytes -> string / entry dict -> leaf validators; oracle in-target: accept <=> regex grammar,
predicate form == raising form, predicates never raise."""
import json
import sys

import fuzzlib
from fuzzlib import OracleFailure, flush_stats, stat

try:
    import atheris
    _instrument = atheris.instrument_imports(include=["conda_content_trust", "vlib.ref_canon", "vlib.ref_grammar"])
except ImportError:
    import contextlib
    atheris = None
    _instrument = contextlib.nullcontext()

with _instrument:
    from conda_content_trust import common as C
    from vlib import ref_grammar as g

PAIRS = [("hex_string", C.is_hex_string, C.checkformat_hex_string, g.is_hex),
         ("hex_key", C.is_hex_key, C.checkformat_hex_key, g.is_key),
         ("hex_signature", C.is_hex_signature, None, g.is_sig),
         ("gpg_fingerprint", C.is_gpg_fingerprint, C.checkformat_gpg_fingerprint, g.is_fingerprint)]
ENTRY = [("gpg_signature", C.is_gpg_signature, C.checkformat_gpg_signature, g.is_gpg_entry),
         ("signature", C.is_signature, C.checkformat_signature, g.is_any_entry)]
HEXC = "0123456789abcdef"


def _check(name, pred, raiser, oracle, v):
    want = oracle(v)
    try:
        p = pred(v)
    except Exception as e:
        raise OracleFailure("is_%s raised %s" % (name, type(e).__name__), bucket="predicate raises is_" + name)
    if p is not want:
        raise OracleFailure("is_%s(%r) = %r, grammar says %r" % (name, v if not isinstance(v, str) else v[:140], p, want),
                            bucket=("accepts outside grammar " if not want else "rejects inside grammar ") + name)
    if raiser is not None:
        try:
            raiser(v)
            ok = True
        except (TypeError, ValueError):
            ok = False
        except Exception as e:
            raise OracleFailure("checkformat_%s raised %s" % (name, type(e).__name__), bucket="raiser wrong error " + name)
        if ok is not want:
            raise OracleFailure("checkformat_%s disagrees with the grammar on %r" % (name, v if not isinstance(v, str) else v[:140]),
                                bucket="raiser differs " + name)


def one_input(data):
    flush_stats()
    if len(data) < 2:
        return
    mode = data[0] % 3
    body = data[1:]
    if mode == 0:
        s = body.decode("utf-8", "surrogatepass") if _ok(body) else body.decode("latin-1")
        stat("free-string")
    elif mode == 1:
        # hex-ish string of one of the grammar lengths with a few bytes from the fuzzer spliced in
        n = (40, 64, 128)[body[0] % 3]
        core = "".join(HEXC[b % 16] for b in (body[1:] * (n // max(1, len(body) - 1) + 2))[:n])
        ins = body[1:4].decode("latin-1")
        pos = (body[0] // 3) % (n + 1)
        s = (core[:pos] + ins + core[pos + len(ins):]) if body[0] & 64 else (core[:pos] + ins + core[pos:])
        stat("hexish")
    else:
        try:
            v = json.loads(body.decode("utf-8", "surrogatepass"))
        except (ValueError, RecursionError, UnicodeDecodeError):
            return
        stat("entry-json")
        if type(v) is dict and v.get("other_headers") == "":
            return          # gray zone
        for name, pred, raiser, oracle in ENTRY:
            _check(name, pred, raiser, oracle, v)
        return
    for name, pred, raiser, oracle in PAIRS:
        _check(name, pred, raiser, oracle, s)


def _ok(b):
    try:
        b.decode("utf-8", "surrogatepass")
        return True
    except UnicodeDecodeError:
        return False


def main():
    atheris.Setup(sys.argv, one_input)
    atheris.Fuzz()


if __name__ == "__main__":
    main()
