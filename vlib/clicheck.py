"""The command-line front end measured against the REFERENCE model (not against the library, as C17 does): for a pair of
files, `verify-metadata` ends with status 0 exactly when the reference rules accept the second file on the basis of the first
(root update rule if it declares type root, delegation rule for its declared type otherwise).

How the tool is started is drawn per case: called in-process (as the conda plugin does), or as a child process through one of
the three entry points (console script, python -m conda_content_trust, python -m conda_content_trust.cli).

In-process cases continue with a history that only a file-based path can have: after the first run one of the two files is
REPLACED by different content of exactly the same length and its modification time is put back (cp -p, rsync -t, a restore, a
coarse-grained file system) - the second run must judge the bytes that are in the file now."""
import contextlib
import copy
import io
import os
import shutil
import tempfile

from . import ref_verify as RV
from .ref_canon import canon
from .runner import Unit, Violation


def expected(T, U):
    t = U["signed"]["type"]
    if t == "root":
        return RV.root_update(T, U)
    return RV.delegation(t, U, T, False)


def _inprocess(tf, uf):
    from conda_content_trust import cli as CLI
    try:
        with contextlib.redirect_stdout(io.StringIO()), contextlib.redirect_stderr(io.StringIO()):
            rc = CLI.cli(["verify-metadata", tf, uf])
    except SystemExit as e:
        rc = e.code
    except Exception as e:          # noqa: BLE001 - an escaping error is a non-zero exit
        return "raise:" + type(e).__name__
    return 0 if rc in (0, None) else rc


def _tampered(doc):
    """deep copy with one ASCII letter / digit inside the signed part replaced by another (same canonical length), or None"""
    out = copy.deepcopy(doc)

    def walk(x):
        if isinstance(x, dict):
            for k in sorted(x, key=str):
                if k in ("type",):
                    continue
                r = walk(x[k])
                if r is not None:
                    x[k] = r[0]
                    return (x,)
        elif isinstance(x, list):
            for i, v in enumerate(x):
                r = walk(v)
                if r is not None:
                    x[i] = r[0]
                    return (x,)
        elif isinstance(x, str):
            for i, ch in enumerate(x):
                if ch.isascii() and ch.isalnum():
                    return (x[:i] + ("b" if ch != "b" else "c") + x[i + 1:],) if ch.isalpha() else (x[:i] + ("7" if ch != "7" else "3") + x[i + 1:],)
        return None
    if not isinstance(out.get("signed"), dict) or walk(out["signed"]) is None:
        return None
    if len(canon(out)) != len(canon(doc)) or canon(out) == canon(doc):
        return None
    return out


def check_cli(case):
    T, U = case["T"], case["U"]
    if not (isinstance(U, dict) and isinstance(U.get("signed"), dict) and isinstance(U["signed"].get("type"), str) and isinstance(T, dict)):
        return {"nontrivial": False, "labels": ["no-declared-type"]}
    d = tempfile.mkdtemp(prefix="clichk-")
    n_hist = 0
    try:
        tf, uf = os.path.join(d, "trusted.json"), os.path.join(d, "untrusted.json")
        try:
            for fn, doc in ((tf, T), (uf, U)):
                with open(fn, "wb") as f:
                    f.write(canon(doc))
        except (TypeError, ValueError):
            return {"nontrivial": False, "labels": ["unserializable"]}
        exp = expected(T, U)
        how = case["how"] % 4
        if how == 0:
            got = _inprocess(tf, uf)
            name = "cli() called in-process"
        else:
            from props import C17
            name, cmd = C17.entry_points(d)[how - 1]
            got, _out, _err = C17.run_cli(cmd, ["verify-metadata", tf, uf], d)
        o = "accept" if got == 0 else "reject"
        if exp.kind == "accept" and o != "accept":
            raise Violation("%s: verify-metadata ends with %r although the reference accepts the untrusted file (%s)" % (name, got, exp.why),
                            bucket="cli rejects what the rules accept")
        if exp.kind == "reject" and o == "accept":
            raise Violation("%s: verify-metadata ends with status 0 although the reference rejects the untrusted file (%s)" % (name, exp.why),
                            bucket="cli accepts what the rules reject")
        if how == 0 and case.get("tamper") is not None:
            side = "U" if case["tamper"] % 2 == 0 else "T"
            new = _tampered(U if side == "U" else T)
            if new is not None:
                fn = uf if side == "U" else tf
                st_ = os.stat(fn)
                with open(fn, "wb") as f:
                    f.write(canon(new))
                os.utime(fn, ns=(st_.st_atime_ns, st_.st_mtime_ns))
                T2, U2 = (T, new) if side == "U" else (new, U)
                exp2 = expected(T2, U2)
                got2 = _inprocess(tf, uf)
                o2 = "accept" if got2 == 0 else "reject"
                n_hist = 1
                if exp2.kind == "reject" and o2 == "accept":
                    raise Violation("cli() called in-process a second time after the %s file was replaced by different content of the same "
                                    "length with its modification time put back: status 0 although the reference rejects what is in the "
                                    "file now (%s)" % ("untrusted" if side == "U" else "trusted", exp2.why), bucket="cli judges stale file content")
                if exp2.kind == "accept" and o2 != "accept":
                    raise Violation("cli() in-process, second run after a same-length replacement of the %s file: %r although the reference "
                                    "accepts" % (side, got2), bucket="cli judges stale file content")
    finally:
        shutil.rmtree(d, ignore_errors=True)
    return {"nontrivial": exp.kind != "gray", "labels": ["expect=" + exp.kind, "how=%d" % how, "type=" + ("root" if U["signed"]["type"] == "root" else "other")]
            + (["same-length-replacement"] if n_hist else []), "gray": exp.kind == "gray"}


def unit_cli(quick=160, thorough=4000, kinds=("root", "root", "root-ok", "delegation", "delegation-ok", "delegation-ok", "numeric-spelling", "malformed")):
    from hypothesis import strategies as st

    def strategy():
        from props import C17
        return st.builds(lambda c, how, tamper: {"T": c["T"], "U": c["U"], "how": how, "tamper": tamper},
                         C17._verify_cases(kinds=kinds), st.sampled_from([0, 0, 0, 1, 2, 3, 3]), st.one_of(st.none(), st.integers(0, 3)))

    return Unit("cli_reference", check_cli, strategy=strategy, quick=quick, thorough=thorough, shards_quick=16, shrink=False,
                doc="verify-metadata (in-process and through the three entry points) against the reference rules; in-process runs repeated "
                    "after a same-length replacement of one file with its modification time restored")
