"""C05 - the delegation check uses exactly the named role's keys and threshold."""
import copy

from hypothesis import strategies as st

from conda_content_trust import authentication as A

from vlib import cfgunit, configrun, hostile, gen_deleg, gen_json as G, ref_schema, ref_verify as RV, related
from vlib.runner import Unit, Violation
from vlib import clicheck as _clicheck
from vlib import threaded as _threaded
from vlib import interfere as _interfere, interrupt as _interrupt

PROPERTY = "C05"
LEVEL = "exploration"
RULE = ("Trusted metadata with 2-4 roles (names incl. near-miss spellings and arbitrary text) whose key sets are "
        "disjoint / nested / equal / overlapping with differing thresholds; untrusted envelope = delegating metadata "
        "(declaring the asked or another type, sometimes naming the signer keys in its own delegations), arbitrary "
        "JSON or a package record; signers chosen to meet / miss by one / avoid the role aimed at; role asked = aimed "
        "role, another delegated role, an undelegated one or a near-miss spelling; both modes. Oracle: independent "
        "delegation rule, both directions, plus error class. Non-trivial = the signatures satisfy some delegated "
        "role but not the asked one (or the reverse), or the asked role is named only inside the untrusted side.")
ASSUMPTIONS = ["cryptography raw Ed25519 as oracle primitive (cross-checked in C19)"]


def satisfied_roles(case):
    out = set()
    for r, d in case["T"]["signed"]["delegations"].items():
        if RV.count_bounds(case["U"], d["pubkeys"], case["gpg"])[0] >= d["threshold"]:
            out.add(r)
    return out


def _compare(role, U, T, gpg, what):
    expect = RV.delegation(role, U, T, gpg)
    observed, exc = RV.outcome(A.verify_delegation, role, U, T, gpg=gpg)
    bad = RV.mismatch(expect, observed)
    if bad:
        raise Violation("verify_delegation(%r) on a related input presented after an earlier call (%s): %s"
                        % (role, what, bad),
                        bucket=("false accept" if observed == "accept" else "false reject/class " + observed)
                        + " verify_delegation (history)")
    return 1


def history_probes(role, U, T, gpg):
    """Right after the main call, in the same process: trusted metadata with the same type/version/timestamp but
    other delegations; the trusted object changed in place; the same signatures on a changed payload."""
    n = 0
    dels = T["signed"]["delegations"]
    others = [r for r in dels if r != role]
    # same identity fields, the asked role's rule swapped with another role's (new object)
    T2 = copy.deepcopy(T)
    if role in dels and others:
        T2["signed"]["delegations"][role], T2["signed"]["delegations"][others[0]] = \
            T2["signed"]["delegations"][others[0]], T2["signed"]["delegations"][role]
        n += _compare(role, copy.deepcopy(U), T2, gpg, "trusted metadata with same type/version/timestamp, rules swapped")
    # the role removed from / added to the SAME trusted object in place
    T3 = copy.deepcopy(T)
    RV.outcome(A.verify_delegation, role, copy.deepcopy(U), T3, gpg=gpg)
    if role in T3["signed"]["delegations"]:
        del T3["signed"]["delegations"][role]
    elif others:
        T3["signed"]["delegations"][role] = copy.deepcopy(T3["signed"]["delegations"][others[0]])
    n += _compare(role, copy.deepcopy(U), T3, gpg, "the SAME trusted object changed in place")
    # the SAME trusted object damaged in place so that it is no longer well-formed delegating metadata (the asked role's own
    # rule stays as it was): a validation remembered from the previous call must not vouch for it
    for k, damage in enumerate(("no-expiration", "type", "foreign-delegation")):
        T4 = copy.deepcopy(T)
        RV.outcome(A.verify_delegation, role, copy.deepcopy(U), T4, gpg=gpg)
        if damage == "no-expiration":
            T4["signed"].pop("expiration", None)
        elif damage == "type":
            T4["signed"]["type"] = "Root"
        else:
            T4["signed"]["delegations"]["\u0000damaged"] = {"pubkeys": "not a list", "threshold": 0, "extra": None}
        n += _compare(role, copy.deepcopy(U), T4, gpg, "the SAME trusted object damaged in place (%s)" % damage)
    # same signatures, changed payload
    U2 = copy.deepcopy(U)
    RV.outcome(A.verify_delegation, role, U2, T, gpg=gpg)
    if related.inplace_mutate(U2["signed"]):
        n += _compare(role, U2, T, gpg, "the SAME untrusted payload object changed in place")
    return n


def check_case(case):
    role, U, T, gpg = case["role"], case["U"], case["T"], case["gpg"]
    expect = RV.delegation(role, U, T, gpg)
    observed, exc = RV.outcome(A.verify_delegation, role, copy.deepcopy(U), copy.deepcopy(T), gpg=gpg)
    bad = RV.mismatch(expect, observed)
    if bad:
        raise Violation("verify_delegation(%r): %s [asked %s, aimed at %r, plan %s, layout %s, payload %s] %s"
                        % (role, bad, case["ask_kind"], case["aim"], case["plan"], case["layout"], case["kind"],
                           str(exc)[:100]),
                        bucket=("false accept" if observed == "accept" else "false reject/class " + observed)
                        + " verify_delegation")
    probes = history_probes(role, U, T, gpg)
    if expect.kind == "reject":
        probes += hostile.never_accepts(lambda: (lambda u=copy.deepcopy(U), t=copy.deepcopy(T): A.verify_delegation(role, u, t, gpg=gpg)),
                                        "verify_delegation(%r)" % (role,), expect.why)
    sat = satisfied_roles(case)
    delegated = set(T["signed"]["delegations"])
    only_untrusted = (role not in delegated and type(U["signed"]) is dict
                      and type(U["signed"].get("delegations")) is dict and role in U["signed"]["delegations"])
    nontrivial = (bool(sat) and role in delegated and role not in sat) or (role in sat and len(delegated - sat) > 0) \
        or only_untrusted
    labs = ["ask=" + case["ask_kind"], "plan=" + case["plan"], "layout=" + case["layout"], "payload=" + case["kind"],
            "expect=" + expect.kind, "observed=" + observed, "gpg" if gpg else "raw"]
    if bool(sat) and role in delegated and role not in sat:
        labs.append("other-role-satisfied")
    if only_untrusted:
        labs.append("role-only-in-untrusted")
    return {"nontrivial": bool(nontrivial), "labels": labs, "gray": expect.kind == "gray",
            "count": {"history_probes": probes}}


@st.composite
def _config_cases(draw):
    calls = []
    for _ in range(draw(st.integers(3, 5))):
        c = draw(gen_deleg.delegation_cases())
        calls.append(["verify_delegation", c["role"], c["U"], c["T"], c["gpg"]])
    return {"calls": calls, "config": draw(configrun.configs)}


def check_config(case):
    verdicts, labels, count = cfgunit.config_probe(case["calls"], "iff", case["config"])
    return {"nontrivial": len(set(verdicts)) > 1, "labels": labels, "count": count}


def _interrupted_sweep_cases():
    from props import C12
    return C12._sweep_cases().map(lambda c: dict(c, entry='verify_delegation', kind=c["kind"] if c["kind"] in ['invalid', 'valid', 'unauthorized'] else 'invalid'))


def check_interrupted_sweep(case):
    from props import C12
    return C12.check_fault_sweep(case)


UNITS = [
    Unit("interrupted_sweep", check_interrupted_sweep, strategy=_interrupted_sweep_cases, quick=18, thorough=500, shards_quick=3,
         doc="every line event and every C-level call of one verify_delegation interrupted once on a fresh envelope, each followed by a normal retry of the same envelope"),
    Unit("config", check_config, strategy=_config_cases, quick=96, thorough=600, shards_quick=16, shrink=False,
         doc="the delegation rule holds in fresh interpreters under drawn configurations (logging level, -O, warnings, stdout) and discovered environment variables"),
    Unit("delegation", check_case, essential_min=0.01, strategy=gen_deleg.delegation_cases, quick=1500, thorough=60000,
         essential=["other-role-satisfied", "role-only-in-untrusted", "observed=UnknownRoleError",
                    "observed=MetadataVerificationError", "observed=accept", "observed=SignatureError"],
         doc="verify_delegation verdict and error class == independent delegation rule, both directions"),
    _interfere.unit_after(PROPERTY, 'delegation', quick=150, thorough=6000),
    _interrupt.unit_interrupted(PROPERTY, 'delegation', quick=12, thorough=300, max_points=50, shards_quick=12),
    _threaded.unit_threads(PROPERTY),
    _clicheck.unit_cli(),
    cfgunit.unit_under_clocks(PROPERTY, 'delegation'),
]
