"""Pre-existing files next to a target file (left-overs of editors, earlier runs, other tools).

plant(path, which) creates them; a correct in-place signer neither depends on nor is stopped by them."""
import os

KINDS = ["none", "none", "tmp", "bak", "tilde", "lock", "swp", "tmpdir", "part", "new"]


def names(path, which):
    d, b = os.path.split(path)
    return {"tmp": [path + ".tmp"], "bak": [path + ".bak"], "tilde": [path + "~"], "lock": [path + ".lock"],
            "swp": [os.path.join(d, "." + b + ".swp")], "tmpdir": [path + ".tmp"], "part": [path + ".part"],
            "new": [path + ".new"], "none": []}[which]


def plant(path, which):
    out = []
    for n in names(path, which):
        if which == "tmpdir":
            os.makedirs(n, exist_ok=True)
        else:
            with open(n, "wb") as f:
                f.write(b"left over from an earlier run\n")
        out.append(os.path.basename(n))
    return out
