"""Configuration / ambient-input probe shared by several properties.

config_probe(calls, expects, direction, config) runs the verifier calls in a fresh interpreter under `config`
(pre-imported modules, stdout encoding or closed stdout, warnings filter, -O, logging level, hash seed, locale, TZ,
cwd), records which environment variables and files the repository code touches, compares every outcome with the
reference expectation in the given direction and then varies each discovered environment variable.

direction: "sound"     only a wrong ACCEPT is a violation (rejecting by any exception is fine)
           "complete"  only a wrong REJECT of a must-accept call is a violation
           "iff"       both, plus the error class (ref_verify.mismatch)
"""
from . import configrun, ref_verify as RV
from .runner import Violation

ENV_VALUES = ["1", "0", "true", "yes", "", "debug", "/nonexistent", "never"]


def expectation(call):
    if call[0] == "verify_signable":
        return RV.signable(call[1], call[2], call[3], call[4])
    if call[0] == "verify_root":
        return RV.root_update(call[1], call[2])
    if call[0] == "verify_delegation":
        return RV.delegation(call[1], call[2], call[3], call[4])
    raise KeyError(call[0])


def _judge(direction, expect, got, what):
    if direction == "sound":
        if expect.kind == "reject" and got == "accept":
            raise Violation("%s: accepted although the reference rejects (%s)" % (what, expect.why),
                            bucket="false accept under configuration")
    elif direction == "complete":
        if expect.kind == "accept" and got != "accept":
            raise Violation("%s: must be accepted (%s) but gave %s" % (what, expect.why, got),
                            bucket="false reject under configuration " + got)
    else:
        bad = RV.mismatch(expect, got)
        if bad:
            raise Violation("%s: %s" % (what, bad), bucket="verdict depends on configuration")


def config_probe(calls, direction, config, expects=None):
    expects = expects or [expectation(c) for c in calls]
    cfg = dict(config)
    if direction != "sound":
        cfg["stdout"] = None            # a closed stdout makes print() raise: only safe to demand rejection-or-rejection
    r = configrun.run_child("ambient", calls, cfg)
    if not isinstance(r, dict) or "verdicts" not in r:
        raise Violation("child interpreter failed under %r: %s" % (cfg, (r.get("stderr", "")[-300:] if isinstance(r, dict) else r)),
                        bucket="child failed")
    if r["file_opens"]:
        raise Violation("verification opened files although it is given no path: %r" % r["file_opens"][:3],
                        bucket="verifier reads/writes files")
    for i, (e, g) in enumerate(zip(expects, r["verdicts"])):
        _judge(direction, e, g, "call %d (%s) under configuration %r" % (i, calls[i][0], {k: v for k, v in cfg.items() if v}))
    probes = 0
    for key in r["env_reads"]:
        for val in ENV_VALUES:
            got = configrun.run_child("calls", calls, dict(cfg, extra_env={key: val}))
            probes += 1
            if not isinstance(got, list):
                continue
            for i, (e, g) in enumerate(zip(expects, got)):
                _judge(direction, e, g, "call %d (%s) with environment variable %s=%r (the library reads it)" % (i, calls[i][0], key, val))
    labels = ["logging=%s" % cfg.get("logging"), "opt=%s" % cfg.get("PYTHONOPTIMIZE"), "stdout=%s" % (cfg.get("stdout") or cfg.get("PYTHONIOENCODING")),
              "warnings=%s" % cfg.get("PYTHONWARNINGS"), "env-vars-read=%d" % len(r["env_reads"])]
    return r["verdicts"], labels, {"env_probes": probes, "calls": len(calls)}


# ---- a whole unit's oracle re-run inside a configured interpreter ---------------------------------------------------------

def unit_under_config(prop, unit_name, n_cases=6, exclude=(), doc=None, quick=16, thorough=300, closed_stdout=False):
    """Build a Unit that draws n_cases cases of an existing unit plus a configuration, runs that unit's check() on them in
    a fresh interpreter under the configuration, and then once more for every value of every environment variable the
    repository code was seen reading.  `exclude`: configuration keys forced to None for this property."""
    from hypothesis import strategies as st
    from .runner import Inconclusive, Unit, _load_module

    def strategy():
        mod = _load_module(prop)
        base = next(u for u in mod.UNITS if u.name == unit_name)

        @st.composite
        def draw_case(draw):
            cfg = draw(configrun.configs)
            for k in exclude:
                cfg[k] = None
            if draw(st.integers(0, 3)) == 0 and "LC_ALL" not in exclude:
                cfg = configrun.with_ascii_locale(cfg)
            if closed_stdout and draw(st.integers(0, 2)) == 0:
                cfg["stdout"] = draw(st.sampled_from(["closed", "broken"]))   # daemonised process / dead pipe: only for code that has no business printing
            return {"cases": [draw(base.strategy()) for _ in range(draw(st.integers(2, n_cases)))], "config": cfg}
        return draw_case()

    def check(case):
        corpus = {"prop": prop, "unit": unit_name, "cases": case["cases"]}
        cfg = case["config"]
        shown = {k: v for k, v in cfg.items() if v}

        def run(extra=None):
            r = configrun.run_child("unit", corpus, dict(cfg, extra_env=extra or {}), timeout=600)
            if not isinstance(r, dict) or "results" not in r:
                raise Inconclusive("child interpreter failed under %r: %s" % (shown, (r.get("stderr", "")[-400:] if isinstance(r, dict) else r)))
            for i, x in enumerate(r["results"]):
                if x and "violation" in x:
                    raise Violation("%s [unit %s, case %d, in a fresh interpreter under configuration %r%s]" % (
                        x["violation"], unit_name, i, shown, (" with " + repr(extra)) if extra else ""),
                        bucket=(x.get("bucket") or "violation") + " (configuration)")
                if x and "error" in x:
                    raise Inconclusive("harness error in child under %r: %s\n%s" % (shown, x["error"], x.get("trace", "")))
            return r
        r = run()
        probes = 0
        for key in r["env_reads"]:
            for val in ENV_VALUES:
                run({key: val})
                probes += 1
        return {"nontrivial": True, "labels": ["opt=%s" % cfg.get("PYTHONOPTIMIZE"), "warnings=%s" % cfg.get("PYTHONWARNINGS"),
                                               "logging=%s" % cfg.get("logging"), "ioenc=%s" % cfg.get("PYTHONIOENCODING"),
                                               "env-vars-read=%d" % len(r["env_reads"])],
                "count": {"cases_in_child": len(case["cases"]), "env_probes": probes}}

    return Unit("config_" + unit_name, check, strategy=strategy, quick=quick, thorough=thorough, shards_quick=8, shrink=False,
                doc=doc or ("the oracle of unit %r re-run in fresh interpreters under drawn configurations (-O, warnings filter, logging level, "
                            "stdout encoding, locale, TZ, hash seed, pre-imports, cwd) and under every value of every environment variable the "
                            "library is seen reading" % unit_name))


def unit_under_clocks(prop, unit_name, n_cases=4, quick=3, thorough=60):
    """Every drawn batch of cases of an existing unit is evaluated in a fresh interpreter once per wall-clock value of
    configrun.CLOCKS (month ends, the leap day, year ends, the 32-bit rollover; otherwise default configuration): the calendar
    is exhaustively covered for each batch, so "only on the 31st" / "only on 29 February" cannot hide behind the date of the run."""
    from hypothesis import strategies as st
    from .runner import Inconclusive, Unit, _load_module

    def strategy():
        mod = _load_module(prop)
        base = next(u for u in mod.UNITS if u.name == unit_name)
        return st.fixed_dictionaries({"cases": st.lists(base.strategy(), min_size=n_cases, max_size=n_cases)})

    def check(case):
        corpus = {"prop": prop, "unit": unit_name, "cases": case["cases"]}
        for clock in configrun.CLOCKS:
            cfg = {"clock": clock, "cwd": "scratch", "preimport": [], "PYTHONHASHSEED": "0"}
            r = configrun.run_child("unit", corpus, cfg, timeout=600)
            if not isinstance(r, dict) or "results" not in r:
                raise Inconclusive("child interpreter failed under clock %s: %s" % (clock, (r.get("stderr", "")[-400:] if isinstance(r, dict) else r)))
            for i, x in enumerate(r["results"]):
                if x and "violation" in x:
                    raise Violation("%s [unit %s, case %d, in a fresh interpreter whose clock reads %s UTC]" % (x["violation"], unit_name, i, clock),
                                    bucket=(x.get("bucket") or "violation") + " (clock)")
                if x and "error" in x:
                    raise Inconclusive("harness error in child under clock %s: %s\n%s" % (clock, x["error"], x.get("trace", "")))
        return {"nontrivial": True, "labels": ["clocks=%d" % len(configrun.CLOCKS)], "count": {"child_runs": len(configrun.CLOCKS)}}

    return Unit("clocks_" + unit_name, check, strategy=strategy, quick=quick, thorough=thorough, shards_quick=3, shrink=False,
                doc="the oracle of unit %r re-run in fresh interpreters whose wall clock reads each of %d special instants (month ends, "
                    "29 February, year ends, 2038-01-19)" % (unit_name, len(configrun.CLOCKS)))
