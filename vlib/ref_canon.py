"""R1: reference canonical serializer; R2: strict JSON equality.

Written from the published format ("UTF-8 of ASCII-escaped JSON, object keys
sorted, two-space indentation, ',' and ': ' separators"), as a recursive emitter
that shares no code with json.dumps.
"""
import math

_SHORT = {'"': '\\"', "\\": "\\\\", "\b": "\\b", "\f": "\\f", "\n": "\\n",
          "\r": "\\r", "\t": "\\t"}


def _str(s):
    out = ['"']
    for ch in s:
        if ch in _SHORT:
            out.append(_SHORT[ch])
            continue
        o = ord(ch)
        if 0x20 <= o <= 0x7E:
            out.append(ch)
        elif o < 0x10000:
            out.append("\\u%04x" % o)
        else:
            o -= 0x10000
            out.append("\\u%04x\\u%04x" % (0xD800 | (o >> 10), 0xDC00 | (o & 0x3FF)))
    out.append('"')
    return "".join(out)


def _float(f):
    if f != f:
        return "NaN"
    if f == math.inf:
        return "Infinity"
    if f == -math.inf:
        return "-Infinity"
    return float.__repr__(f)


def _emit(v, depth, out):
    if v is None:
        out.append("null")
    elif v is True:
        out.append("true")
    elif v is False:
        out.append("false")
    elif type(v) is int:
        out.append(int.__repr__(v))
    elif type(v) is float:
        out.append(_float(v))
    elif type(v) is str:
        out.append(_str(v))
    elif type(v) is list:
        if not v:
            out.append("[]")
            return
        pad = "\n" + "  " * (depth + 1)
        out.append("[")
        first = True
        for x in v:
            out.append(pad if first else "," + pad)
            first = False
            _emit(x, depth + 1, out)
        out.append("\n" + "  " * depth + "]")
    elif type(v) is dict:
        if not v:
            out.append("{}")
            return
        pad = "\n" + "  " * (depth + 1)
        out.append("{")
        first = True
        for k in sorted(v, key=lambda s: [ord(c) for c in s]):
            if type(k) is not str:
                raise TypeError("reference serializer: non-str key")
            out.append(pad if first else "," + pad)
            first = False
            out.append(_str(k))
            out.append(": ")
            _emit(v[k], depth + 1, out)
        out.append("\n" + "  " * depth + "}")
    else:
        raise TypeError("reference serializer: not a JSON value: %r" % type(v))


def canon(v):
    out = []
    _emit(v, 0, out)
    return "".join(out).encode("ascii")


def jeq(a, b):
    """Strict equality of JSON values: type-exact, NaN == NaN, 0.0 != -0.0."""
    ta, tb = type(a), type(b)
    if ta is not tb:
        return False
    if ta is float:
        if a != a or b != b:
            return a != a and b != b
        return a == b and math.copysign(1.0, a) == math.copysign(1.0, b)
    if ta is list:
        return len(a) == len(b) and all(jeq(x, y) for x, y in zip(a, b))
    if ta is dict:
        return a.keys() == b.keys() and all(jeq(a[k], b[k]) for k in a)
    return a == b


def same_order(a, b):
    """jeq and additionally the same key insertion order everywhere."""
    if type(a) is not type(b):
        return False
    if type(a) is dict:
        return list(a) == list(b) and all(same_order(a[k], b[k]) for k in a)
    if type(a) is list:
        return len(a) == len(b) and all(same_order(x, y) for x, y in zip(a, b))
    return jeq(a, b)
