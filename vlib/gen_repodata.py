"""Generator of repodata documents and of the ways a file holding them may be spelled on disk."""
import json

from hypothesis import strategies as st

from . import gen_envelope as GE, gen_json as G, keys

NAMES = st.one_of(
    st.builds(lambda n, v, b, ext: "%s-%s-%s%s" % (n, v, b, ext), st.sampled_from(["numpy", "zlib", "python", "_r-mutex", "caf\u00e9"]),
              st.sampled_from(["1.0", "2.3.1", "0.0.1a", "2018.12"]), st.sampled_from(["py27_0", "h1234_1", "0"]),
              st.sampled_from([".tar.bz2", ".conda", ""])),
    G.strings)

LIBRARY_FIELDS = [("type", ["root", "key_mgr", "pkg_mgr", "conda"]), ("delegations", [{}, {"pkg_mgr": {"pubkeys": [], "threshold": 1}}]),
                  ("metadata_spec_version", ["0.6.0", "0.1.0"]), ("expiration", ["2031-01-01T00:00:00Z"]),
                  ("signatures", [{}, {"ab" * 32: {"signature": "cd" * 64}}]), ("signed", [{}, {"type": "root"}]), ("threshold", [1]),
                  ("pubkeys", [[]]), ("timestamp", [1594619205, "2020-07-13T05:46:45Z"])]

STYLES = ["canonical", "compact", "indent4", "unsorted", "spaces", "trailing-newline", "utf8", "crlf"]


@st.composite
def repodata(draw, min_artifacts=0, max_artifacts=8):
    n = draw(st.integers(min_artifacts, max_artifacts))
    names = draw(st.lists(NAMES, min_size=n, max_size=n, unique=True))
    metas = []
    for i in range(n):
        kind = draw(st.sampled_from(["record", "record", "record", "json", "same-as-prev", "prev-one-leaf", "envelope-shaped", "library-fields"]))
        if kind == "same-as-prev" and metas:
            metas.append(json.loads(json.dumps(metas[-1])) if _plain(metas[-1]) else draw(G.package_record))
        elif kind == "prev-one-leaf" and metas and type(metas[-1]) is dict:
            m = dict(metas[-1])
            m["build_number"] = (m.get("build_number", 0) if type(m.get("build_number")) is int else 0) + 1
            metas.append(m)
        elif kind == "json":
            metas.append(draw(G.payloads))
        elif kind == "library-fields":
            # ordinary package metadata that happens to use field names / values the library's own metadata uses
            m = dict(draw(G.package_record))
            for f, vals in draw(st.lists(st.sampled_from(LIBRARY_FIELDS), min_size=1, max_size=3, unique_by=lambda t: t[0])):
                m[f] = draw(st.sampled_from(vals))
            metas.append(m)
        elif kind == "envelope-shaped":
            # metadata that itself looks like a signed envelope (two fields "signatures" and "signed")
            metas.append({"signatures": draw(st.sampled_from([{}, {"ab" * 32: {"signature": "cd" * 64}}])), "signed": draw(G.package_record)})
        else:
            metas.append(draw(G.package_record))
    split = draw(st.integers(0, n))
    has_conda = draw(st.sampled_from(["present", "present", "absent", "empty"]))
    if has_conda != "present":
        split = n
    doc = {}
    fields = []
    if draw(st.booleans()):
        fields.append(("info", {"subdir": draw(st.sampled_from(["linux-64", "noarch"]))}))
    fields.append(("packages", {names[i]: metas[i] for i in range(split)}))
    if has_conda == "present":
        fields.append(("packages.conda", {names[i]: metas[i] for i in range(split, n)}))
    elif has_conda == "empty":
        fields.append(("packages.conda", {}))
    if draw(st.booleans()):
        fields.append(("removed", draw(st.lists(G.strings, max_size=2))))
    if draw(st.booleans()):
        fields.append(("repodata_version", draw(st.sampled_from([1, 2, "1"]))))
    for _ in range(draw(st.integers(0, 2))):
        fields.append((draw(G.strings.filter(lambda s: s not in ("packages", "packages.conda", "signatures"))),
                       draw(G.json_values(5))))
    stale = draw(st.sampled_from(["none", "none", "stale", "junk", "empty"]))
    if stale == "stale":
        sig = {}
        ghost = draw(keys.ghost_keys)
        for nm in names[: draw(st.integers(0, n))]:
            sig[nm] = {ghost: {"signature": "ab" * 64}}
        sig[draw(NAMES)] = {ghost: {"signature": "cd" * 64}}
        fields.append(("signatures", sig))
    elif stale == "junk":
        fields.append(("signatures", draw(G.json_values(5))))
    elif stale == "empty":
        fields.append(("signatures", {}))
    fields = draw(st.permutations(fields))
    for k, v in fields:
        doc[k] = v
    return doc


def _plain(v):
    try:
        json.dumps(v, allow_nan=False)
        return True
    except (ValueError, TypeError):
        return False


def spell(doc, style, canon):
    """bytes of a file holding doc, in one of several spellings an external tool might produce"""
    if style == "canonical":
        return canon(doc)
    if style == "compact":
        return json.dumps(doc, separators=(",", ":")).encode()
    if style == "indent4":
        return json.dumps(doc, indent=4, sort_keys=True).encode()
    if style == "unsorted":
        return json.dumps(G.reversed_keys(doc), indent=2).encode()
    if style == "spaces":
        return (" \n\t" + json.dumps(doc, indent=1) + "\n\n  ").encode()
    if style == "trailing-newline":
        return canon(doc) + b"\n"
    if style == "crlf":
        return canon(doc).replace(b"\n", b"\r\n")
    if style == "utf8":
        try:
            return json.dumps(doc, ensure_ascii=False, indent=2).encode("utf-8")
        except UnicodeEncodeError:
            return json.dumps(doc, indent=2).encode()
    raise KeyError(style)
