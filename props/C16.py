"""C16 - metadata constructors emit only well-formed, faithful metadata."""
import copy
import datetime
import os
import time

from hypothesis import strategies as st

from conda_content_trust import authentication as A, common as C, metadata_construction as MC

from vlib import gen_json as G, gen_metadata as GM, gen_mutate as MU, gen_pyvalues as GP, keys, ref_grammar as g, \
    ref_schema, ref_verify as RV
from vlib.ref_canon import canon, jeq
from vlib import cfgunit as _cfgunit, interrupt as _interrupt
from vlib.runner import Unit, Violation
from vlib import interfere as _interfere, interrupt as _interrupt

PROPERTY = "C16"
LEVEL = "exploration"
RULE = ("Argument tuples for build_delegating_metadata and build_root_metadata: valid ones (types root / key_mgr / other "
        "strings, 0-4 delegations incl. empty key lists, thresholds, versions up to 2^64 and beyond, strict UTC times drawn "
        "independently so that expiration may precede the timestamp, each optional omitted) and invalid ones (each argument "
        "replaced by Python values of every kind incl. falsy ones, or by a boundary mutation of its valid value). Oracle: "
        "the call raises TypeError/ValueError, or returns r such that: wrap(r) passes the independent schema and the "
        "library's checker (supported types); r carries type / version / timestamp / expiration / delegations strictly "
        "equal to the arguments; r.metadata_spec_version == the library's constant; with defaulted times both are strict "
        "UTC strings, expiration > timestamp and expiration - timestamp = 365 d +- 5 s; the root builder always has "
        "root and key_mgr delegations. Chain unit: builder-made roots v, v+1, v+2 with rotations and a builder-made "
        "key_mgr, signed by threshold keys with the reference OpenPGP / raw signer, verify link by link and as delegation. "
        "Non-trivial = an omitted optional, an invalid argument, or a chain with rotation.")
ASSUMPTIONS = ["the default timestamps read the wall clock: checked with a tolerance of 5 s, never for equality",
               "gray zones (True / integral float as version or threshold) may either raise or be carried verbatim"]

ARG = (TypeError, ValueError)
OMIT = "<omitted>"


def _call(f, kwargs):
    try:
        return "ok", f(**kwargs)
    except ARG as e:
        return "raise", e
    except Exception as e:
        raise Violation("%s raised %s (%s) instead of an argument error" % (f.__name__, type(e).__name__, str(e)[:100]),
                        bucket="builder internal error " + type(e).__name__)


def _strict_time(s):
    return g.utc_time(s) == "yes"


def _parse(s):
    return datetime.datetime.strptime(s, "%Y-%m-%dT%H:%M:%SZ")


def _check_result(fname, r, given, is_root):
    """given: dict of the effective arguments (OMIT for omitted optionals)."""
    if type(r) is not dict:
        raise Violation("%s returned %r, not a dict" % (fname, type(r).__name__), bucket="builder result shape")
    want_fields = {"type", "version", "metadata_spec_version", "timestamp", "expiration", "delegations"}
    if set(r) != want_fields:
        raise Violation("%s returned fields %r" % (fname, sorted(r)), bucket="builder result fields")
    if r["metadata_spec_version"] != C.SECURITY_METADATA_SPEC_VERSION or type(r["metadata_spec_version"]) is not str:
        raise Violation("%s: metadata_spec_version is %r, the library's specification version is %r"
                        % (fname, r["metadata_spec_version"], C.SECURITY_METADATA_SPEC_VERSION), bucket="spec version")
    for field in ("type", "version", "timestamp", "expiration", "delegations"):
        if given[field] is OMIT:
            continue
        if not jeq(r[field], given[field]):
            raise Violation("%s: returned %s = %r but the argument was %r (not carried verbatim)"
                            % (fname, field, r[field], given[field]), bucket="not verbatim: " + field)
    if given["delegations"] is OMIT and r["delegations"] != {}:
        raise Violation("%s: default delegations are %r, not {}" % (fname, r["delegations"]), bucket="default delegations")
    if given["version"] is OMIT and not (type(r["version"]) is int and r["version"] == 1):
        raise Violation("%s: default version is %r" % (fname, r["version"]), bucket="default version")
    for field in ("timestamp", "expiration"):
        if given[field] is OMIT and not _strict_time(r[field]):
            raise Violation("%s: default %s %r is not a strict UTC time string" % (fname, field, r[field]), bucket="default time form")
    if given["timestamp"] is OMIT and given["expiration"] is OMIT:
        delta = (_parse(r["expiration"]) - _parse(r["timestamp"])).total_seconds()
        # "about one year later": 365 days (what the library adds) up to a calendar year that contains 29 February
        if not (delta > 0 and 365 * 86400 - 5 <= delta <= 366 * 86400 + 5):
            raise Violation("%s: default expiration - timestamp = %s s, expected one year (365 to 366 days, +-5 s) and > 0" % (fname, delta),
                            bucket="default expiry distance")
    if given["timestamp"] is OMIT:
        now = datetime.datetime.now(datetime.timezone.utc).replace(tzinfo=None)
        if abs((_parse(r["timestamp"]) - now).total_seconds()) > 5:
            raise Violation("%s: default timestamp %s is not the current UTC time" % (fname, r["timestamp"]), bucket="default timestamp")
    if is_root:
        d = r["delegations"]
        if type(d) is not dict or set(d) != {"root", "key_mgr"}:
            raise Violation("build_root_metadata: delegations are %r, not exactly root and key_mgr" % (sorted(d) if type(d) is dict else d,),
                            bucket="root delegations")
    # schema + the library's own checker
    env = {"signatures": {}, "signed": copy.deepcopy(r)}
    verdict, reasons = ref_schema.schema(env)
    supported = r["type"] in ("root", "key_mgr")
    if supported:
        if verdict == "no":
            raise Violation("%s returned metadata outside the documented schema: %r" % (fname, reasons[:3]), bucket="builder emits invalid: "
                            + reasons[0][0])
        try:
            C.checkformat_delegating_metadata(env)
        except Exception as e:
            if verdict == "yes":
                raise Violation("%s returned metadata that the library's own checker rejects: %s %s"
                                % (fname, type(e).__name__, str(e)[:100]), bucket="builder output fails checker")
    return verdict


# ---- valid arguments -------------------------------------------------------------------------------------------------

@st.composite
def _valid(draw):
    seeds = draw(keys.seed_lists(1, 5))
    pubs = [keys.pub_hex(s) for s in seeds]
    which = draw(st.sampled_from(["delegating", "root"]))
    opt = lambda strat: draw(st.one_of(st.just(OMIT), strat, strat))
    if which == "delegating":
        args = {"metadata_type": draw(st.sampled_from(["root", "key_mgr", "key_mgr", "pkg_mgr", "", "Root"])),
                "delegations": opt(GM.delegations_of(pubs)), "version": opt(GM.versions), "timestamp": opt(GM.utc_times),
                "expiration": opt(GM.utc_times)}
    else:
        sub = lambda: draw(st.lists(st.sampled_from(pubs), unique=True, max_size=len(pubs)))
        args = {"root_version": draw(GM.versions), "root_pubkeys": sub(), "root_threshold": draw(GM.thresholds),
                "key_mgr_pubkeys": sub(), "key_mgr_threshold": draw(GM.thresholds),
                "root_timestamp": opt(GM.utc_times), "root_expiration": opt(GM.utc_times)}
    return {"which": which, "args": args, "tz": draw(st.sampled_from(TZS))}


def _given(which, args):
    if which == "delegating":
        return {"type": args["metadata_type"], "delegations": args.get("delegations", OMIT), "version": args.get("version", OMIT),
                "timestamp": args.get("timestamp", OMIT), "expiration": args.get("expiration", OMIT)}
    return {"type": "root", "version": args["root_version"], "timestamp": args.get("root_timestamp", OMIT),
            "expiration": args.get("root_expiration", OMIT),
            "delegations": {"root": {"pubkeys": args["root_pubkeys"], "threshold": args["root_threshold"]},
                            "key_mgr": {"pubkeys": args["key_mgr_pubkeys"], "threshold": args["key_mgr_threshold"]}}}


def _invoke(which, args):
    kwargs = {k: GP.realize(v) for k, v in args.items() if v != OMIT}
    f = MC.build_delegating_metadata if which == "delegating" else MC.build_root_metadata
    given = _given(which, {k: (GP.realize(v) if v != OMIT else OMIT) for k, v in args.items()})
    # None for an optional means "use the default", exactly like omitting it
    for k in ("delegations", "timestamp", "expiration"):
        if given[k] is None:
            given[k] = OMIT
    return f, kwargs, given


class _TZ:
    """Run with a process time zone other than UTC (POSIX TZ strings need no zone files)."""

    def __init__(self, tz):
        self.tz = tz

    def __enter__(self):
        self.old = os.environ.get("TZ")
        if self.tz:
            os.environ["TZ"] = self.tz
            time.tzset()

    def __exit__(self, *a):
        if self.tz:
            if self.old is None:
                os.environ.pop("TZ", None)
            else:
                os.environ["TZ"] = self.old
            time.tzset()


TZS = [None, "UTC", "XXX-14", "YYY+11:30", "Pacific/Kiritimati", "America/St_Johns"]


def _scribble(md):
    """in-place edits of a result by the caller that owns it"""
    if type(md) is not dict:
        return
    d = md.get("delegations")
    if type(d) is dict:
        for role in list(d.values()):
            if type(role) is dict:
                if type(role.get("pubkeys")) is list:
                    role["pubkeys"].append("draft - not a key")
                role["threshold"] = 0
        d["verif-probe-role"] = {"pubkeys": "to be filled in", "threshold": None}
    md["version"] = "draft"
    md["verif-probe"] = [1]


def check_valid(case):
    f, kwargs, given = _invoke(case["which"], case["args"])
    before = copy.deepcopy(kwargs)
    with _TZ(case.get("tz")):
        kind, r = _call(f, kwargs)
    if kind != "ok":
        raise Violation("%s raised %s on valid arguments: %s" % (f.__name__, type(r).__name__, str(r)[:120]), bucket="rejects valid arguments")
    if not jeq(kwargs, before):
        raise Violation("%s modified its arguments" % f.__name__, bucket="arguments mutated")
    v = _check_result(f.__name__, r, given, case["which"] == "root")
    # The caller owns the result: it edits it in place (adds a delegation to the draft, empties a key list) and builds again
    # with the same arguments.  The second result must be the first one again (default times may have moved on).
    first = copy.deepcopy(r)
    _scribble(r)
    with _TZ(case.get("tz")):
        kind2, r2 = _call(f, copy.deepcopy(before))
    if kind2 != "ok":
        raise Violation("%s raised %s on valid arguments after the caller edited the previous result in place: %s"
                        % (f.__name__, type(r2).__name__, str(r2)[:120]), bucket="outcome depends on earlier calls")
    _check_result(f.__name__, r2, given, case["which"] == "root")
    for field in first:
        if field in ("timestamp", "expiration") and given[field] is OMIT:
            continue
        if not jeq(first[field], r2.get(field)):
            raise Violation("%s: same arguments, second call (after the caller edited the first result in place): %s is %r, was %r"
                            % (f.__name__, field, r2.get(field), first[field]), bucket="outcome depends on earlier calls")
    omitted = [k for k, x in case["args"].items() if x == OMIT]
    labs = [case["which"], "omitted=%d" % len(omitted), "schema=" + v, "tz=" + ("non-UTC" if case.get("tz") not in (None, "UTC") else "UTC")]
    if given["timestamp"] is not OMIT and given["expiration"] is not OMIT:
        labs.append("exp<=ts" if given["expiration"] <= given["timestamp"] else "exp>ts")
    return {"nontrivial": bool(omitted) or case["which"] == "root", "labels": labs}


# ---- corrupted arguments ----------------------------------------------------------------------------------------------

FALSY = ["", 0, False, [], {}, 0.0, b"", ()]


@st.composite
def _corrupt(draw):
    base = draw(_valid())
    args = dict(base["args"])
    names = sorted(args)
    name = names[draw(st.integers(0, 10 ** 6)) % len(names)]
    how = draw(st.sampled_from(["pyvalue", "falsy", "mutation", "mutation", "spelling", "dup-key", "odd-role"]))
    if how == "odd-role" and "delegations" in args and type(args.get("delegations")) is dict:
        # a role whose NAME is awkward for whoever formats messages (format braces, percent signs, separators), carrying an
        # invalid or a valid delegation: an argument error or faithful metadata, nothing else
        name = "delegations"
        args[name] = copy.deepcopy(args[name])
        role = draw(st.sampled_from(["{}", "{channel}", "{0}", "{", "%s", "%(role)s", "%d", "a/b", "..", "\n", "role\x00"]))
        args[name][role] = draw(st.sampled_from([{"pubkeys": "not a list", "threshold": 1}, {"pubkeys": [], "threshold": 0}, {"pubkeys": []},
                                                 {"pubkeys": [keys.pub_hex(keys.POOL[0])], "threshold": 1}, None, 7]))
        return {"which": base["which"], "args": args, "corrupted": name, "how": how, "base_args": dict(base["args"])}
    if how == "odd-role":
        how = "mutation"
    if how == "dup-key":
        # one key listed twice in a key list, the two occurrences anywhere (next to each other, first and last, around others)
        lists = []
        for k in names:
            v = args[k]
            if type(v) is list and v and all(type(x) is str for x in v):
                lists.append((k, None))
            elif type(v) is dict:
                lists += [(k, r) for r in v if type(v[r]) is dict and type(v[r].get("pubkeys")) is list and v[r]["pubkeys"]]
        if lists:
            name, role = lists[draw(st.integers(0, 10 ** 6)) % len(lists)]
            args[name] = copy.deepcopy(args[name])
            lst = args[name] if role is None else args[name][role]["pubkeys"]
            if len(lst) < 3 and draw(st.booleans()):
                lst.append(keys.pub_hex(keys.POOL[15 - len(lst)]))
            src = draw(st.integers(0, len(lst) - 1))
            lst.insert(draw(st.integers(0, len(lst))), lst[src])
            if role is not None:
                args[name][role]["threshold"] = draw(st.sampled_from([1, 2, len(lst)]))
            return {"which": base["which"], "args": args, "corrupted": name, "how": how, "base_args": dict(base["args"])}
        how = "mutation"
    if how == "spelling":
        # a valid argument in another spelling the library lets through (time strings as strptime reads them: unpadded fields,
        # lower-case t / z, other digits): whatever the builder does with it, "verbatim" and "well-formed" still apply
        times = [k for k in names if type(args[k]) is str and MU._looks_like_time(args[k])]
        if times:
            name = times[draw(st.integers(0, 10 ** 6)) % len(times)]
            for e in draw(st.permutations(["unpadded", "lower", "fullwidth_digit", "lower"])):
                r = MU.apply({"v": args[name]}, {"path": ["v"], "op": "time:" + e})
                if r is not MU.INAPPLICABLE and r["v"] != args[name]:
                    args[name] = r["v"]
                    break
            return {"which": base["which"], "args": args, "corrupted": name, "how": how, "base_args": dict(base["args"])}
        how = "mutation"
    if how == "pyvalue" or args[name] == OMIT and how == "mutation":
        args[name] = draw(st.one_of(GP.scalars, GP.python_values))
        how = "pyvalue"
    elif how == "falsy":
        args[name] = draw(st.sampled_from(FALSY))
    else:
        doc = args[name]
        ps = list(G.paths(doc))
        path = list(ps[draw(st.integers(0, 10 ** 6)) % len(ps)])
        op = MU.OPS[draw(st.integers(0, 10 ** 6)) % len(MU.OPS)]
        node = G.get_path(doc, path)
        own = MU.own_ops(node)
        if own and draw(st.integers(0, 2)) > 0:
            # two times in three a node gets an edit of its own kind (time spellings, hex near-misses, numeric neighbours, a key
            # repeated somewhere in a list, a role name respelled) rather than one of the ~50 type-confusing replacements
            op = own[draw(st.integers(0, 10 ** 6)) % len(own)]
        r = MU.apply(doc, {"path": path, "op": op})
        if r is MU.INAPPLICABLE:
            r = MU.apply(doc, {"path": path, "op": "replace:%d" % draw(st.integers(0, len(MU.REPLACEMENTS) - 1))})
        args[name] = r
    return {"which": base["which"], "args": args, "corrupted": name, "how": how, "base_args": dict(base["args"])}


def _prime_same_objects(case, f, kwargs):
    """History: the container arguments are first used in their VALID state - validated, built with, verified against -
    and then changed in place into the corrupted value (same objects), as an editing session on the next version would."""
    base = case.get("base_args")
    if not base:
        return
    valid_kwargs = {k: GP.realize(v) for k, v in base.items() if v != OMIT}
    for k, v in kwargs.items():
        good = valid_kwargs.get(k)
        if isinstance(v, dict) and isinstance(good, dict) or isinstance(v, list) and isinstance(good, list):
            try:
                bad = copy.deepcopy(v)
            except Exception:
                continue        # holds an object that cannot be copied (memoryview, ...): no priming for this case
            if isinstance(v, dict):
                v.clear()
                v.update(copy.deepcopy(good))
            else:
                v[:] = copy.deepcopy(good)
            try:
                if isinstance(v, dict):
                    C.checkformat_delegations(v)
                    env = {"signatures": {}, "signed": GM.signed_part("root", v, version=1)}
                    C.checkformat_delegating_metadata(env)
                    RV.outcome(A.verify_delegation, "root", copy.deepcopy(env), env)
                f(**dict(valid_kwargs, **{k: v}))
            except Exception:
                pass
            if isinstance(v, dict):
                v.clear()
                v.update(bad)
            else:
                v[:] = bad


def check_corrupt(case):
    f, kwargs, given = _invoke(case["which"], case["args"])
    _prime_same_objects(case, f, kwargs)
    kind, r = _call(f, kwargs)
    if kind == "raise":
        return {"nontrivial": True, "labels": ["raised", "arg=" + case["corrupted"], "how=" + case["how"]]}
    v = _check_result(f.__name__, r, given, case["which"] == "root")
    return {"nontrivial": True, "labels": ["returned", "arg=" + case["corrupted"], "how=" + case["how"], "schema=" + v],
            "gray": v == "gray"}


# ---- chains ---------------------------------------------------------------------------------------------------------------

@st.composite
def _chains(draw):
    seeds = draw(keys.seed_lists(2, 5))
    n = len(seeds)
    links = []
    for i in range(3):
        mask = draw(st.integers(1, 2 ** n - 1))
        ks = GM.subset_by_mask(list(range(n)), mask)
        links.append({"keys": ks, "thr": draw(st.sampled_from([1, len(ks), max(1, len(ks) - 1)]))})
    km = GM.subset_by_mask(list(range(n)), draw(st.integers(1, 2 ** n - 1)))
    return {"seeds": [s.hex() for s in seeds], "links": links, "v": draw(GM.versions), "km": km,
            "km_thr": draw(st.integers(1, len(km))), "omit_times": draw(st.booleans())}


def check_chain(case):
    seeds = [bytes.fromhex(s) for s in case["seeds"]]
    pubs = [keys.pub_hex(s) for s in seeds]
    roots = []
    for i, l in enumerate(case["links"]):
        kw = dict(root_version=case["v"] + i, root_pubkeys=[pubs[j] for j in l["keys"]], root_threshold=l["thr"],
                  key_mgr_pubkeys=[pubs[j] for j in case["km"]], key_mgr_threshold=case["km_thr"])
        if not case["omit_times"]:
            kw.update(root_timestamp="2024-01-0%dT00:00:00Z" % (i + 1), root_expiration="2034-01-01T00:00:00Z")
        kind, r = _call(MC.build_root_metadata, kw)
        if kind != "ok":
            raise Violation("build_root_metadata raised on valid arguments: %s" % r, bucket="rejects valid arguments")
        roots.append(GM.wrap(r))
    for i in (1, 2):
        prev, cur = case["links"][i - 1], case["links"][i]
        signers = list(dict.fromkeys(prev["keys"][:prev["thr"]] + cur["keys"][:cur["thr"]]))
        GM.sign_envelope(roots[i], [seeds[j] for j in signers], True)
        expect = RV.root_update(roots[i - 1], roots[i])
        if expect.kind != "accept":
            raise Violation("harness: builder-made chain link is not accept-worthy: %r" % expect, bucket="harness")
        o, exc = RV.outcome(A.verify_root, roots[i - 1], roots[i])
        if o != "accept":
            raise Violation("builder-made root v%d, threshold-signed, is rejected as successor of v%d: %s %s"
                            % (case["v"] + i, case["v"] + i - 1, o, str(exc)[:100]), bucket="builder chain rejected")
    kind, km = _call(MC.build_delegating_metadata, dict(metadata_type="key_mgr", delegations={
        "pkg_mgr": {"pubkeys": pubs[:1], "threshold": 1}}))
    if kind != "ok":
        raise Violation("build_delegating_metadata raised on valid arguments: %s" % km, bucket="rejects valid arguments")
    K = GM.wrap(km)
    GM.sign_envelope(K, [seeds[j] for j in case["km"][:case["km_thr"]]], False)
    for R in roots:
        o, exc = RV.outcome(A.verify_delegation, "key_mgr", K, R)
        if o != "accept":
            raise Violation("builder-made key_mgr metadata signed by the delegated keys is rejected under a builder-made root: %s %s"
                            % (o, str(exc)[:100]), bucket="builder delegation rejected")
    rotated = case["links"][0]["keys"] != case["links"][1]["keys"] or case["links"][1]["keys"] != case["links"][2]["keys"]
    return {"nontrivial": rotated, "labels": ["rotated" if rotated else "same-keys", "default-times" if case["omit_times"] else "explicit-times"]}


def _no_crowd(case):
    """keep the 1000+-key roles out of the quadratic interruption sweeps (they are in every other unit)"""
    d = case["args"].get("delegations")
    return not isinstance(d, dict) or all(len(v.get("pubkeys", ())) < 50 for v in d.values() if isinstance(v, dict) and isinstance(v.get("pubkeys", ()), (list, tuple)))


UNITS = [
    Unit("valid", check_valid, strategy=_valid, quick=1200, thorough=40000,
         essential=["root", "delegating", "exp<=ts", "omitted=2", "tz=non-UTC"], doc="valid argument tuples: faithful, well-formed output"),
    Unit("corrupt", check_corrupt, strategy=_corrupt, quick=2500, thorough=80000,
         essential=["raised", "returned", "how=falsy", "how=mutation", "how=spelling", "how=dup-key"],
         doc="each argument corrupted: argument error, or output that is still well-formed and verbatim"),
    Unit("chain", check_chain, strategy=_chains, quick=300, thorough=10000,
         essential=["rotated"], doc="builder -> signer -> verifier: three-link root chains and key_mgr delegation"),
    _cfgunit.unit_under_config(PROPERTY, 'valid', exclude=('PYTHONWARNINGS', 'TZ')),
    _cfgunit.unit_under_config(PROPERTY, 'corrupt', exclude=('PYTHONWARNINGS',), closed_stdout=True, n_cases=30),
    _interrupt.unit_interrupted(PROPERTY, 'corrupt', quick=30, thorough=750, max_points=120, filter_case=_no_crowd),
    _interfere.unit_after(PROPERTY, 'corrupt', quick=150, thorough=6000),
    _interfere.unit_after(PROPERTY, 'valid', quick=150, thorough=6000),
    _interrupt.unit_interrupted(PROPERTY, 'valid', quick=18, thorough=450, max_points=150, filter_case=_no_crowd),
    _cfgunit.unit_under_clocks(PROPERTY, 'valid'),
]
