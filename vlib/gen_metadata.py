"""Constructive generators of well-formed delegating metadata (R6 = yes by construction)."""
import datetime

from hypothesis import strategies as st

from . import gen_json as G, keys, ref_openpgp
from .ref_canon import canon

utc_times = st.datetimes(min_value=datetime.datetime(1, 1, 1), max_value=datetime.datetime(9999, 12, 31, 23, 59, 59)
                         ).map(lambda d: d.replace(microsecond=0).strftime("%Y-%m-%dT%H:%M:%SZ")).map(
    lambda s: s.rjust(20, "0"))   # strftime drops leading zeros of years < 1000 on glibc

ROLE_NAMES = ["root", "key_mgr", "pkg_mgr", "Root", "ROOT", "root.json", "key_mgr ", " key_mgr", "key-mgr",
              "", "x", "r\u043eot", "caf\u00e9_mgr", "cafe\u0301_mgr", "\u212bngstr\u00f6m", "\u00c5ngstro\u0308m",
              "{}", "{channel}", "{0}", "%s", "%(role)s", "{", "a/b", ".."]
role_names = st.one_of(st.sampled_from(ROLE_NAMES), st.sampled_from(ROLE_NAMES[:3]), G.strings)

versions = st.one_of(st.integers(1, 5), st.integers(1, 2 ** 40), st.sampled_from([1, 2, 2 ** 31, 2 ** 63, 2 ** 64, 10 ** 30]),
                     st.sampled_from([2 ** 53, 2 ** 53 + 1, 2 ** 1023, 2 ** 1024, 2 ** 1024 + 1, 10 ** 400]))   # beyond doubles of every kind
spec_versions = st.one_of(st.sampled_from(["0.6.0", "0.1.0", "1.0.0"]), G.strings)
thresholds = st.one_of(st.integers(1, 3), st.integers(1, 6), st.sampled_from([1, 2 ** 40]))


RESERVED = ("type", "metadata_spec_version", "delegations", "expiration", "version", "timestamp")


def signed_part(type_, delegations, version=1, timestamp="2020-07-13T05:46:45Z",
                expiration="2031-07-13T05:46:45Z", spec="0.6.0", extra=None):
    s = {"type": type_, "metadata_spec_version": spec, "delegations": delegations, "expiration": expiration}
    if version is not None:
        s["version"] = version
    if timestamp is not None:
        s["timestamp"] = timestamp
    if extra:
        for k, v in extra.items():
            # never let an "extra" field land on a schema field (Hypothesis likes to reuse constants such as "timestamp")
            s["x-" + k if k in RESERVED else k] = v
    return s


@st.composite
def delegations_of(draw, pubs, roles=None, min_roles=0, max_roles=4):
    """role -> {pubkeys (distinct subset of pubs, any order), threshold}"""
    if roles is None:
        roles = draw(st.lists(role_names, min_size=min_roles, max_size=max_roles, unique=True))
    d = {}
    for r in roles:
        ks = draw(st.lists(st.sampled_from(pubs), max_size=len(pubs), unique=True)) if pubs else []
        if draw(st.integers(0, 29)) == 0:
            # a role with very many keys (no limit on their number is documented): 1025-2100 keys nobody here holds, around ours
            crowd = keys.derived_ghosts(draw(st.integers(0, 2 ** 32)), draw(st.sampled_from([1025, 1500, 2100, 4097])))
            cut = draw(st.integers(0, len(crowd)))
            ks = [k for k in crowd[:cut] if k not in ks] + ks + [k for k in crowd[cut:] if k not in ks]
        d[r] = {"pubkeys": ks, "threshold": draw(thresholds)}
    return d


@st.composite
def signed_parts(draw, pubs, type_=None, roles=None, min_roles=0):
    t = type_ or draw(st.sampled_from(["root", "key_mgr"]))
    has_version = t == "root" or draw(st.booleans())
    has_ts = (not has_version) or draw(st.booleans())
    extra = draw(st.one_of(st.just(None), st.dictionaries(G.strings, G.json_values(4), max_size=2)))
    return signed_part(
        t, draw(delegations_of(pubs, roles=roles, min_roles=min_roles)),
        version=draw(versions) if has_version else None,
        timestamp=draw(utc_times) if has_ts else None,
        expiration=draw(utc_times), spec=draw(spec_versions), extra=extra)


def wrap(signed, signatures=None):
    return {"signatures": dict(signatures or {}), "signed": signed}


def sign_envelope(env, seeds, gpg, headers=None, signer=None):
    """Add a valid signature by each seed (in place); returns env."""
    B = canon(env["signed"])
    for s in seeds:
        if gpg:
            env["signatures"][keys.pub_hex(s)] = ref_openpgp.entry(s, B, headers=headers, signer=signer)
        else:
            env["signatures"][keys.pub_hex(s)] = {"signature": (signer or keys.sign_raw)(s, B).hex()}
    return env


def subset_by_mask(items, mask):
    return [x for i, x in enumerate(items) if (mask >> i) & 1]
