"""In-process, pure-Python stand-in for the two securesystemslib calls the library's GPG path uses
(gpg.functions.create_signature / export_pubkey).  It signs exactly as RFC 4880 v4 prescribes for an
EdDSA key (vlib/ref_openpgp.py), with keys identified by a 40-hex fingerprint derived from the seed.

install(root_signing) patches the *module object* in this process only (the repository is untouched);
uninstall() restores it.  Fault hooks let C18 make either call fail."""
import hashlib

from . import keys, ref_openpgp


class CommandError(Exception):
    pass


class KeyNotFoundError(Exception):
    pass


def fingerprint_of(seed):
    return hashlib.sha1(b"verif-gpg-stub" + keys.pub_bytes(seed)).hexdigest()


class Stub:
    def __init__(self, seeds, clock=0x5F0BF546):
        self.by_fpr = {fingerprint_of(s): bytes(s) for s in seeds}
        self.clock = clock
        self.fail_create = None
        self.fail_export = None
        self.calls = []

    def create_signature(self, content, keyid=None, homedir=None):
        self.calls.append(("create_signature", keyid))
        if self.fail_create:
            raise self.fail_create
        if keyid not in self.by_fpr:
            raise CommandError("gpg: signing failed: No secret key (%s)" % keyid)
        seed = self.by_fpr[keyid]
        self.clock += 1
        headers = ref_openpgp.default_headers(keyid, self.clock & 0xFFFFFFFF)
        e = ref_openpgp.entry(seed, bytes(content), headers=headers)
        return {"keyid": keyid, "other_headers": e["other_headers"], "signature": e["signature"]}

    def export_pubkey(self, keyid, homedir=None):
        self.calls.append(("export_pubkey", keyid))
        if self.fail_export:
            raise self.fail_export
        if keyid not in self.by_fpr:
            raise KeyNotFoundError("No key found for %s" % keyid)
        return {"type": "eddsa", "method": "pgp+eddsa-ed25519", "hashes": ["pgp+SHA2"], "keyid": keyid,
                "creation_time": 1571411344,
                "keyval": {"private": "", "public": {"q": keys.pub_hex(self.by_fpr[keyid])}}}


_saved = {}


def install(root_signing, stub):
    if "saved" not in _saved:
        _saved["saved"] = (getattr(root_signing, "SSLIB_AVAILABLE", False), getattr(root_signing, "gpg_funcs", None),
                           hasattr(root_signing, "gpg_funcs"))
    root_signing.SSLIB_AVAILABLE = True
    root_signing.gpg_funcs = stub


def uninstall(root_signing):
    if "saved" in _saved:
        avail, funcs, had = _saved.pop("saved")
        root_signing.SSLIB_AVAILABLE = avail
        if had:
            root_signing.gpg_funcs = funcs
        elif hasattr(root_signing, "gpg_funcs"):
            del root_signing.gpg_funcs
