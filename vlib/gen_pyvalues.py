"""'Any Python value in any argument position' as plain, replayable data.

Values that are not data (object(), key objects, memoryview, ...) are generated as tagjson.Opaque
sentinels and turned into the real thing by realize() inside the check.
"""
import math
from datetime import timedelta

from hypothesis import strategies as st

from . import gen_json as G, keys
from .tagjson import Opaque

OPAQUES = ["object", "privkey", "pubkey", "memoryview32", "memoryview0", "type", "function", "ellipsis",
           "notimplemented", "complex", "range", "str-subclass", "int-subclass", "dict-subclass", "bytes64"]

_VALID_KEY = keys.pub_hex(keys.POOL[0])

scalars = st.one_of(
    st.none(), st.booleans(), st.integers(-3, 3), st.integers(-2 ** 70, 2 ** 70), st.sampled_from([2 ** 64, 10 ** 400, -1, 0, 1]),
    st.floats(allow_nan=True, allow_infinity=True), st.sampled_from([math.inf, -math.inf, math.nan, 1.0, 2.0, 1.5, 0.0, -0.0, 1e300]),
    G.strings, st.sampled_from(["", "0", "1", "root", "key_mgr", _VALID_KEY, _VALID_KEY.upper(), "ab" * 64, "ab" * 20,
                                "2020-01-01T00:00:00Z", "signature", "pubkeys"]),
    st.binary(max_size=40), st.sampled_from([b"", b"\x00" * 32, b"\x00" * 64, bytes.fromhex(_VALID_KEY), _VALID_KEY.encode()]),
    st.builds(bytearray, st.binary(max_size=33)), st.builds(lambda d, s: timedelta(days=d, seconds=s), st.integers(-400, 400),
                                                           st.integers(0, 86399)),
    st.sampled_from([Opaque(n) for n in OPAQUES]),
    # containers / byte strings whose len() equals a grammar length (40, 64, 128)
    st.sampled_from([40, 64, 128]).flatmap(lambda n: st.sampled_from([["a"] * n, ("a",) * n, b"a" * n, bytearray(b"a" * n),
                                                                      {"k%03d" % i: 0 for i in range(n)}, frozenset(range(n))])),
    st.sampled_from([10 ** 400, -(10 ** 400), 10 ** 4000]),
)

python_values = st.recursive(
    scalars,
    lambda ch: st.one_of(
        st.lists(ch, max_size=4), st.lists(ch, max_size=3).map(tuple),
        st.dictionaries(st.one_of(G.strings, st.integers(-2, 2), st.none(), st.booleans(), st.binary(max_size=3)), ch, max_size=4),
        st.lists(st.one_of(st.integers(-3, 3), G.strings, st.none(), st.binary(max_size=3)), max_size=4).map(set),
        st.lists(st.one_of(st.integers(-3, 3), G.strings), max_size=3).map(frozenset)),
    max_leaves=8)


class _Str(str):
    pass


class _Int(int):
    pass


class _Dict(dict):
    pass


def _opaque(name):
    from conda_content_trust import common as C
    if name == "object":
        return object()
    if name == "privkey":
        return C.PrivateKey.from_bytes(keys.POOL[0])
    if name == "pubkey":
        return C.PrivateKey.from_bytes(keys.POOL[0]).public_key()
    if name == "memoryview32":
        return memoryview(bytes(32))
    if name == "memoryview0":
        return memoryview(b"")
    if name == "type":
        return dict
    if name == "function":
        return len
    if name == "ellipsis":
        return Ellipsis
    if name == "notimplemented":
        return NotImplemented
    if name == "complex":
        return 1 + 2j
    if name == "range":
        return range(3)
    if name == "str-subclass":
        return _Str(_VALID_KEY)
    if name == "int-subclass":
        return _Int(2)
    if name == "dict-subclass":
        return _Dict(signature="00" * 64)
    if name == "bytes64":
        return bytes(64)
    raise KeyError(name)


def realize(v):
    if isinstance(v, Opaque):
        return _opaque(v.name)
    if type(v) is list:
        return [realize(x) for x in v]
    if type(v) is tuple:
        return tuple(realize(x) for x in v)
    if type(v) is dict:
        return {k: realize(x) for k, x in v.items()}
    return v


def has_opaque(v, names=None):
    if isinstance(v, Opaque):
        return names is None or v.name in names
    if type(v) in (list, tuple):
        return any(has_opaque(x, names) for x in v)
    if type(v) is dict:
        return any(has_opaque(x, names) for x in v.values())
    return False
