"""C09 - sign-then-verify round trip, signer binding, determinism, order independence."""
import copy

from hypothesis import strategies as st

from conda_content_trust import authentication as A, common as C, signing as S

from props import C07
from vlib import gen_envelope as GE, gen_json as G, keys, ref_ed25519, ref_verify as RV
from vlib.ref_canon import canon, jeq, same_order
from vlib import cfgunit as _cfgunit
from vlib.runner import Unit, Violation
from vlib import editor as _editor
from vlib import threaded as _threaded
from vlib import interfere as _intf, interrupt as _interrupt

PROPERTY = "C09"
LEVEL = "exploration"
RULE = ("payload (any JSON value) x 1-5 keys x a drawn signing order with repeats x a second order x pre-existing "
        "foreign entries x a post-signing edit (a strict one-leaf change from the C07 change catalogue, or an "
        "insertion-order-only change). Oracles: the envelope equals exactly {signatures: foreign + {pub_i: {signature: "
        "RFC8032(seed_i, canon(payload))}}, signed: payload} with the signatures computed by the pure-Python reference; "
        "payload not aliased and unchanged; idempotent; both orders give == envelopes; accepted for every t <= k, "
        "SignatureError for t = k+1; after a strict edit no earlier signature counts; after an order-only change all "
        "still count. Non-trivial = >=2 signers and two different orders, or a strict edit.")
ASSUMPTIONS = ["vlib/ref_ed25519.py implements RFC 8032 (validated on the RFC 7.1 vectors at start-up)"]

ref_ed25519.self_test()


@st.composite
def _cases(draw):
    crowd = draw(st.integers(0, 15)) == 0
    # one case in sixteen: a crowd of 33-100 signers (limits such as "at most 32 / 64 entries examined" need one)
    seeds = keys.derived_seeds(draw(st.integers(0, 2 ** 32)), draw(st.integers(33, 100))) if crowd else draw(keys.seed_lists(1, 5))
    k = len(seeds)
    order = draw(st.lists(st.integers(0, k - 1), min_size=k, max_size=k + 3))
    order = order + [i for i in range(k) if i not in order]
    order2 = list(draw(st.permutations(order)))
    foreign = draw(st.lists(st.tuples(st.one_of(G.strings, keys.ghost_keys), GE.JUNK_VALUES), max_size=3))
    if draw(st.integers(0, 7)) == 0:
        # a flood of other parties' entries (well-formed, by keys nobody here holds)
        foreign += [(g, {"signature": "ab" * 64}) for g in keys.derived_ghosts(draw(st.integers(0, 2 ** 32)), draw(st.integers(33, 150)))]
    pubs = {keys.pub_hex(s) for s in seeds}
    foreign = [[a, b] for a, b in foreign if a not in pubs]
    # stale content already filed under some signers' own keys (must be replaced by signing)
    stale = []
    for s_ in seeds:
        if draw(st.integers(0, 3)) == 0:
            stale.append([keys.pub_hex(s_), draw(st.one_of(
                GE.JUNK_VALUES, st.just({"signature": keys.sign_raw(s_, b"some other payload").hex()})))])
    edit = draw(st.one_of(st.fixed_dictionaries({
        "path": st.integers(0, 10 ** 6), "change": st.sampled_from(C07.CHANGES), "w": G.scalars,
        "i": st.integers(0, 10 ** 6)})))
    return {"payload": draw(G.payloads), "seeds": [s.hex() for s in seeds], "order": order, "order2": order2,
            "foreign": foreign, "stale": stale, "edit": edit, "warn_error": draw(st.booleans()), "reorder_only": draw(st.integers(0, 3)) == 0}


def _shares_mutable(a, b):
    """True if a and b share any mutable container object."""
    ids = set()

    def collect(x):
        if isinstance(x, (dict, list)):
            ids.add(id(x))
            for y in (x.values() if isinstance(x, dict) else x):
                collect(y)

    def probe(x):
        if isinstance(x, (dict, list)):
            if id(x) in ids:
                return True
            return any(probe(y) for y in (x.values() if isinstance(x, dict) else x))
        return False

    collect(a)
    return probe(b)


def _sign_all(payload, seeds, order, foreign, stale=()):
    env = S.wrap_as_signable(payload)
    for k, v in list(foreign) + list(stale):
        env["signatures"][k] = copy.deepcopy(v)
    for i in order:
        try:
            r = S.sign_signable(env, C.PrivateKey.from_bytes(seeds[i]))
        except Exception as e:
            raise Violation("sign_signable raised %s on a signable envelope and a valid key: %s" % (type(e).__name__, str(e)[:100]),
                            bucket="sign raises " + type(e).__name__)
        if r is not None:
            raise Violation("sign_signable returned %r instead of signing in place" % (r,), bucket="sign returns")
    return env


def check_case(case):
    import warnings
    with warnings.catch_warnings():
        if case.get("warn_error"):
            warnings.simplefilter("error")      # a host application may have turned warnings into errors
        return _check_case(case)


def _check_case(case):
    payload = case["payload"]
    original = copy.deepcopy(payload)
    seeds = [bytes.fromhex(s) for s in case["seeds"]]
    k = len(seeds)
    B = canon(original)
    try:
        env0 = S.wrap_as_signable(payload)
    except Exception as e:
        raise Violation("wrap_as_signable raised %s on a JSON payload" % type(e).__name__, bucket="wrap raises")
    if not (type(env0) is dict and list(sorted(env0)) == ["signatures", "signed"] and env0["signatures"] == {}
            and same_order(env0["signed"], original)):
        raise Violation("wrap_as_signable did not return {signatures: {}, signed: payload}: %r" % (env0,),
                        bucket="wrap shape")
    if _shares_mutable(payload, env0):
        raise Violation("wrapped envelope shares mutable objects with the payload (no deep copy)", bucket="aliasing")

    env = _sign_all(payload, seeds, case["order"], case["foreign"], case.get("stale", ()))
    if not jeq(payload, original):
        raise Violation("signing modified the caller's payload", bucket="payload mutated")
    expected_sigs = {a: b for a, b in case["foreign"]}
    for n_, s in enumerate(seeds):
        if n_ < 5:      # pure-Python RFC 8032 for the first five signers, the cross-checked fast primitive for the rest of a crowd
            expected_sigs[keys.pub_hex(s)] = {"signature": ref_ed25519.sign(s, B).hex()}
            if ref_ed25519.public_key(s).hex() != keys.pub_hex(s):
                raise Violation("harness: oracle primitives disagree on the public key", bucket="harness")
        else:
            expected_sigs[keys.pub_hex(s)] = {"signature": keys.sign_raw(s, B).hex()}
    expected = {"signatures": expected_sigs, "signed": original}
    if not (jeq(env, expected)):
        diff = sorted(set(env.get("signatures", {})) ^ set(expected_sigs))
        raise Violation("signed envelope differs from {signatures: foreign + RFC 8032 signatures under each signer's "
                        "public key, signed: payload}; key differences %r" % (diff[:4],), bucket="envelope differs")
    for s in seeds:
        ent = env["signatures"][keys.pub_hex(s)]
        o, _ = RV.outcome(C.checkformat_signature, ent)
        if o != "accept":
            raise Violation("checkformat_signature rejects a produced entry: %s" % o, bucket="produced entry malformed")
    if S.serialize_and_sign(payload, C.PrivateKey.from_bytes(seeds[0])) != ref_ed25519.sign(seeds[0], B).hex():
        raise Violation("serialize_and_sign differs from RFC 8032 over the canonical bytes", bucket="serialize_and_sign")

    # order independence + idempotence
    env2 = _sign_all(payload, seeds, case["order2"], case["foreign"])
    if env2 != env or canon(env2) != canon(env) or not jeq(env2, env):
        raise Violation("signing in another order gives a different envelope", bucket="order dependence")
    again = copy.deepcopy(env)
    S.sign_signable(again, C.PrivateKey.from_bytes(seeds[0]))
    if not same_order(again, env):
        raise Violation("signing again with the same key changed the envelope", bucket="not idempotent")

    # threshold boundary
    pubs = [keys.pub_hex(s) for s in seeds]
    for t in (range(1, k + 2) if k <= 8 else sorted({1, 2, 8, 9, 16, 17, 31, 32, 33, 63, 64, 65, k // 2, k - 1, k, k + 1} & set(range(1, k + 2)))):
        o, exc = RV.outcome(A.verify_signable, copy.deepcopy(env), pubs, t)
        want = "accept" if t <= k else "SignatureError"
        if o != want:
            raise Violation("k=%d signers, threshold %d: expected %s, got %s" % (k, t, want, o),
                            bucket="threshold boundary")
    # a key listed twice is still one signer
    o, _ = RV.outcome(A.verify_signable, copy.deepcopy(env), pubs + pubs[:1] + pubs[-1:], k + 1)
    if o != "SignatureError":
        raise Violation("k=%d signers, authorized list repeats a key, threshold k+1: expected SignatureError, got %s"
                        % (k, o), bucket="threshold boundary")
    # each key alone
    for p in (pubs if k <= 8 else pubs[:3] + pubs[-3:] + pubs[30:36] + pubs[62:68]):
        o, _ = RV.outcome(A.verify_signable, copy.deepcopy(env), [p], 1)
        if o != "accept":
            raise Violation("signature does not verify with its own key authorized: %s" % o, bucket="own key")

    labs = ["warnings=error" if case.get("warn_error") else "warnings=default", "signers=%d" % k, "foreign=%d" % len(case["foreign"]), "stale=%d" % min(1, len(case.get("stale", ())))]
    strict = False
    if case["edit"] is not None:
        edited = copy.deepcopy(env)
        if case["reorder_only"]:
            edited["signed"] = G.reversed_keys(edited["signed"])
            labs.append("edit=reorder-only")
        else:
            edited["signed"] = C07.apply_change(dict(case["edit"], v=edited["signed"]))
            labs.append("edit=" + case["edit"]["change"])
        strict = not jeq(edited["signed"], env["signed"])
        o, _ = RV.outcome(A.verify_signable, edited, pubs, 1 if strict else k)
        if strict and o != "SignatureError":
            raise Violation("after changing the payload's JSON value an earlier signature still counts: %s" % o,
                            bucket="edit not detected")
        if not strict and o != "accept":
            raise Violation("a change of key insertion order only invalidated the signatures: %s" % o,
                            bucket="order-only edit invalidates")
        labs.append("strict-edit" if strict else "neutral-edit")
        if strict:
            # sign -> edit -> sign again with the same keys == wrapping and signing the edited payload afresh
            for i in case["order"]:
                S.sign_signable(edited, C.PrivateKey.from_bytes(seeds[i]))
            fresh = _sign_all(edited["signed"], seeds, case["order"], case["foreign"])
            if not jeq(edited, fresh):
                raise Violation("re-signing an edited envelope differs from signing the edited payload afresh "
                                "(stale entries survive)", bucket="resign after edit")
            o, _ = RV.outcome(A.verify_signable, edited, pubs, k)
            if o != "accept":
                raise Violation("re-signed edited envelope does not verify: %s" % o, bucket="resign after edit")
    nontrivial = (k >= 2 and case["order"] != case["order2"]) or strict
    return {"nontrivial": nontrivial, "labels": labs}


def _interrupted_sweep_cases():
    from props import C12
    return C12._sweep_cases().map(lambda c: dict(c, entry='verify_signable', kind=c["kind"] if c["kind"] in ['valid', 'invalid'] else 'valid'))


def check_interrupted_sweep(case):
    from props import C12
    return C12.check_fault_sweep(case)


UNITS = [
    Unit("interrupted_sweep", check_interrupted_sweep, strategy=_interrupted_sweep_cases, quick=18, thorough=500, shards_quick=3,
         doc="every line event and every C-level call of one verify_signable interrupted once on a fresh envelope, each followed by a normal retry of the same envelope"),
    Unit("roundtrip", check_case, strategy=_cases, quick=800, thorough=24000, shards_quick=16,
         essential=["strict-edit", "neutral-edit", "signers=2", "stale=1"],
         doc="wrap, sign (any order, repeats), full differential against RFC 8032 reference, thresholds, edits"),
    _cfgunit.unit_under_config(PROPERTY, 'roundtrip', exclude=()),
    _intf.unit_after(PROPERTY, 'roundtrip', quick=150, thorough=6000),
    _interrupt.unit_interrupted(PROPERTY, 'roundtrip', quick=12, thorough=300, max_points=40, shards_quick=12,
                                filter_case=lambda c: len(c["seeds"]) <= 8 and len(c["foreign"]) <= 8),
    _threaded.unit_threads(PROPERTY),
    _editor.unit(),
]
