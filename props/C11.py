"""C11 - repodata artifact signing is complete, faithful and client-verifiable."""
import copy
import json
import os
import shutil
import tempfile

from hypothesis import strategies as st

from conda_content_trust import authentication as A, common as C, signing as S

from vlib import siblings, gen_json as G, gen_metadata as GM, gen_repodata as GR, keys, ref_ed25519, ref_verify as RV
from vlib.ref_canon import canon, jeq
from vlib import cfgunit as _cfgunit
from vlib.runner import Unit, Violation
from vlib import interfere as _interfere, interrupt as _interrupt

PROPERTY = "C11"
LEVEL = "exploration"
RULE = ("Repodata documents: 0-8 artifacts with distinct names (conda-style and arbitrary JSON strings) split over "
        "packages / packages.conda (absent, empty or present), per-artifact metadata = package records or arbitrary JSON "
        "(some artifacts share equal metadata, some differ in one leaf), optional stale / junk / empty signatures "
        "section, extra top-level fields, any field order; file spelled canonically or as an external tool would "
        "(compact, indent 4, unsorted, surrounding whitespace, CRLF, raw UTF-8); key = any seed. Oracle (full "
        "differential): file bytes after sign_all_in_repodata == canonical bytes of the original document with "
        "signatures := {name: {pub: {signature: RFC8032(seed, canon(metadata))}}} for every artifact of both sections; a "
        "second run leaves the bytes unchanged; a second run in the same process after a metadata edit that keeps the "
        "sha256 field re-signs; client path wrap_as_signable + attach entry + verify_delegation('pkg_mgr') accepts each "
        "artifact against its own metadata, rejects it against another artifact's different metadata and accepts it "
        "against equal metadata. Non-trivial = at least one artifact in each section, or a stale signatures section, "
        "or a non-canonical input spelling.")
ASSUMPTIONS = ["vlib/ref_ed25519.py / cryptography raw Ed25519 as signature oracle (cross-checked in C19)"]


@st.composite
def _cases(draw):
    return {"doc": draw(GR.repodata()), "seed": draw(keys.seeds).hex(), "style": draw(st.sampled_from(GR.STYLES)),
            "resign_edit": draw(st.booleans()), "sibling": draw(st.sampled_from(siblings.KINDS)), "load_mutate": draw(st.booleans()),
            "path": draw(st.sampled_from(["plain", "plain", "symlink", "relative"])), "via_cli": draw(st.integers(0, 3)) == 0}


def expected_after(doc, seed):
    pub = keys.pub_hex(seed)
    exp = copy.deepcopy(doc)
    sigs = {}
    for section in ("packages", "packages.conda"):
        for name, meta in doc.get(section, {}).items():
            sigs[name] = {pub: {"signature": keys.sign_raw(seed, canon(meta)).hex()}}
    exp["signatures"] = sigs
    return exp


def _sign(fn, seed, via_cli=False):
    try:
        if via_cli:
            # the sign-artifacts subcommand, called in-process; the key comes from a file that lives elsewhere
            import contextlib
            import io
            from conda_content_trust import cli as CLI
            kd = tempfile.mkdtemp(prefix="c11k-")
            try:
                with open(os.path.join(kd, "key.hex"), "w") as f:
                    f.write(seed.hex() + "\n")
                with contextlib.redirect_stdout(io.StringIO()):
                    r = CLI.cli(["sign-artifacts", fn, os.path.join(kd, "key.hex")])
                if r not in (None, 0):
                    raise Violation("sign-artifacts ended with status %r on a well-formed repodata file" % (r,), bucket="signing fails (cli)")
                r = None
            finally:
                shutil.rmtree(kd, ignore_errors=True)
        else:
            r = S.sign_all_in_repodata(fn, seed.hex())
    except Violation:
        raise
    except Exception as e:
        raise Violation("sign_all_in_repodata raised %s on a well-formed repodata file: %s" % (type(e).__name__, str(e)[:120]),
                        bucket="signing raises " + type(e).__name__)
    return r


def check_case(case):
    doc, seed = case["doc"], bytes.fromhex(case["seed"])
    pub = keys.pub_hex(seed)
    d = tempfile.mkdtemp(prefix="c11-")
    old_cwd = None
    try:
        fn = os.path.join(d, "repodata.json")
        via_cli = bool(case.get("via_cli"))
        real = fn
        old_cwd = None
        if case.get("path") == "symlink":
            # the name given to the signer is a symbolic link (a "current" link into a pool directory)
            os.mkdir(os.path.join(d, "pool"))
            real = os.path.join(d, "pool", "repodata-0f3a.json")
            os.symlink(os.path.join("pool", "repodata-0f3a.json"), fn)
        with open(real, "wb") as f:
            f.write(GR.spell(doc, case["style"], canon))
        if case.get("path") == "relative":
            old_cwd = os.getcwd()
            os.chdir(d)
            fn = "repodata.json"
        if not jeq(json.load(open(fn, "rb")), doc):
            raise Violation("harness: spelled file does not parse back to the document", bucket="harness")
        planted = siblings.plant(os.path.join(d, "repodata.json"), case.get("sibling", "none"))
        if case.get("load_mutate"):
            # another part of the program loaded the same file earlier and changed ITS copy in memory (never written back)
            try:
                mine = C.load_metadata_from_file(fn)
            except Exception as e:      # noqa: BLE001
                raise Violation("load_metadata_from_file raised %s on a well-formed repodata file (spelling %s): %s"
                                % (type(e).__name__, case["style"], str(e)[:100]), bucket="loader raises " + type(e).__name__)
            if isinstance(mine, dict):
                mine["packages"] = {}
                mine["injected-in-memory-only"] = True
        _sign(fn, seed, via_cli)
        exp = expected_after(doc, seed)
        data = open(fn, "rb").read()
        if case.get("path") == "symlink":
            if not os.path.islink(os.path.join(d, "repodata.json")) or open(real, "rb").read() != data:
                raise Violation("signing through a symbolic link: the link was %s and the file it names %s" % (
                    "kept" if os.path.islink(os.path.join(d, "repodata.json")) else "replaced by a regular file",
                    "holds the signed document" if open(real, "rb").read() == data else "was NOT updated"), bucket="symlink not followed")
        if data != canon(exp):
            got = None
            try:
                got = json.loads(data)
            except Exception:
                pass
            if got is not None and jeq(got, exp):
                raise Violation("signed repodata file has the right content but is not in canonical form (input spelling %s)"
                                % case["style"], bucket="output not canonical")
            what = "unparseable"
            if isinstance(got, dict):
                gs, es = got.get("signatures"), exp["signatures"]
                if not jeq({k: v for k, v in got.items() if k != "signatures"}, {k: v for k, v in exp.items() if k != "signatures"}):
                    what = "fields other than signatures changed"
                elif not isinstance(gs, dict) or set(gs) != set(es):
                    what = "signatures section does not list exactly the artifacts (got %d entries, expected %d)" % (
                        len(gs) if isinstance(gs, dict) else -1, len(es))
                else:
                    what = "a signature entry differs from RFC 8032 over the artifact's canonical metadata"
            raise Violation("signed repodata differs from the expected document: %s" % what, bucket="output differs: " + what[:40])
        # ref cross-check of one signature with the pure-Python signer
        for section in ("packages", "packages.conda"):
            for name, meta in list(doc.get(section, {}).items())[:1]:
                if exp["signatures"][name][pub]["signature"] != ref_ed25519.sign(seed, canon(meta)).hex():
                    raise Violation("harness: oracle signers disagree", bucket="harness")
        # idempotence
        _sign(fn, seed, via_cli)
        if open(fn, "rb").read() != data:
            raise Violation("signing an already signed repodata file again changed it", bucket="not idempotent")
        if sorted(os.listdir(d)) != sorted(["repodata.json"] + planted + (["pool"] if case.get("path") == "symlink" else [])):
            raise Violation("signing left extra files behind (or removed someone else's): %r" % sorted(os.listdir(d)), bucket="extra files")
        # client path
        signed = json.loads(data)
        T = GM.wrap(GM.signed_part("key_mgr", {"pkg_mgr": {"pubkeys": [pub], "threshold": 1}}, version=None,
                                   timestamp="2024-01-01T00:00:00Z"))
        arts = []
        for section in ("packages", "packages.conda"):
            arts += list(signed.get(section, {}).items())
        n_cross = 0
        for name, meta in arts:
            env = S.wrap_as_signable(meta)
            env["signatures"] = copy.deepcopy(signed["signatures"][name])
            expect = RV.delegation("pkg_mgr", env, T, False)
            o, exc = RV.outcome(A.verify_delegation, "pkg_mgr", env, T)
            bad = RV.mismatch(expect, o)
            if bad:
                raise Violation("client-side verification of artifact %r against its own metadata: %s" % (name, bad),
                                bucket="client verification")
            for name2, meta2 in arts:
                if name2 == name:
                    continue
                env2 = S.wrap_as_signable(meta2)
                env2["signatures"] = copy.deepcopy(signed["signatures"][name])
                o2, _ = RV.outcome(A.verify_delegation, "pkg_mgr", env2, T)
                same = jeq(meta, meta2)
                n_cross += 1
                exp2 = RV.delegation("pkg_mgr", env2, T, False)
                bad2 = RV.mismatch(exp2, o2)
                if bad2:
                    raise Violation("signature of artifact %r applied to artifact %r (%s metadata): %s"
                                    % (name, name2, "equal" if same else "different", bad2), bucket="cross-artifact")
        # same process, metadata edited but sha256 kept (a repodata hotfix), signed again
        if case["resign_edit"] and arts:
            doc2 = json.loads(data)
            for sec in ("packages", "packages.conda"):      # one artifact in EACH section gets the hotfix
                if not doc2.get(sec):
                    continue
                nm = sorted(doc2[sec])[-1]
                m = doc2[sec][nm]
                if type(m) is dict:
                    m["depends"] = ["hotfix >=1"] + (m["depends"] if type(m.get("depends")) is list else [])
                else:
                    doc2[sec][nm] = [m]
            with open(fn, "wb") as f:
                f.write(canon(doc2))
            _sign(fn, seed, via_cli)
            if open(fn, "rb").read() != canon(expected_after(doc2, seed)):
                raise Violation("after editing an artifact's metadata (sha256 unchanged) and signing again in the same "
                                "process, the file is not the expected signed document (stale signature?)",
                                bucket="re-sign after edit")
    finally:
        if old_cwd is not None:
            os.chdir(old_cwd)
        shutil.rmtree(d, ignore_errors=True)
    n1, n2 = len(doc.get("packages", {})), len(doc.get("packages.conda", {}))
    labs = ["path=" + case.get("path", "plain"), "cli" if case.get("via_cli") else "api", "sibling=" + ("yes" if case.get("sibling", "none") != "none" else "no"), "style=" + case["style"], "both-sections" if n1 and n2 else "one-section" if n1 or n2 else "no-artifacts",
            "stale-signatures" if "signatures" in doc else "no-signatures-before", "packages.conda-absent"
            if "packages.conda" not in doc else "packages.conda-present"]
    return {"nontrivial": bool((n1 and n2) or "signatures" in doc or case["style"] != "canonical"), "labels": labs,
            "count": {"cross_checks": n_cross, "artifacts": n1 + n2}}


def enum_fixtures(tier):
    for f in ("tests/testdata/repodata_sample.json", "tests/testdata/repodata_short_signed_sample.json"):
        for i in range(3):
            yield {"file": f, "seed": keys.POOL[i].hex()}
    # sizes: small, and big with totals that are no multiple of 2, 4, 8 ... (n + n // 2 artifacts: 97, 5002; 1537, 7500, 12286)
    for n in ([65, 3335] if tier == "quick" else [65, 1025, 3335, 5000, 8191]):
        yield {"synthetic": n, "seed": keys.POOL[3].hex()}
    # sections as big as the busiest real channels have them, with counts that are no multiple of anything
    for n1, n2 in ([(50003, 3), (5, 16387)] if tier == "quick" else [(50003, 3), (5, 16387), (200003, 100001), (65537, 65539)]):
        yield {"synthetic": n1, "synthetic_conda": n2, "seed": keys.POOL[4].hex()}


def _synthetic(n, n2=None):
    """many artifacts (no implementation limit on their number is part of the property)"""
    pk = {"pkg-%05d-1.0-0.tar.bz2" % i: {"name": "pkg-%05d" % i, "version": "1.0", "build_number": i % 7, "depends": [], "size": i}
          for i in range(n)}
    pc = {"pkg-%05d-1.0-0.conda" % i: {"name": "pkg-%05d" % i, "version": "1.0", "build_number": i % 7, "depends": [], "size": i + 1}
          for i in range(n // 2 if n2 is None else n2)}
    return {"info": {"subdir": "linux-64"}, "packages": pk, "packages.conda": pc, "repodata_version": 1}


def _check_big(case):
    seed = bytes.fromhex(case["seed"])
    doc = _synthetic(case["synthetic"], case.get("synthetic_conda"))
    d = tempfile.mkdtemp(prefix="c11b-")
    try:
        fn = os.path.join(d, "repodata.json")
        with open(fn, "wb") as f:
            f.write(canon(doc))
        _sign(fn, seed)
        if open(fn, "rb").read() != canon(expected_after(doc, seed)):
            raise Violation("a repodata file with %d + %d artifacts is not signed completely and faithfully"
                            % (len(doc["packages"]), len(doc["packages.conda"])), bucket="output differs: many artifacts")
    finally:
        shutil.rmtree(d, ignore_errors=True)
    return {"nontrivial": True, "labels": ["artifacts=%d" % (len(doc["packages"]) + len(doc["packages.conda"]))]}


def check_fixture(case):
    from vlib.runner import REPO
    if "synthetic" in case:
        return _check_big(case)
    doc = json.load(open(os.path.join(REPO, case["file"]), "rb"))
    return check_case({"doc": doc, "seed": case["seed"], "style": "indent4", "resign_edit": True})


UNITS = [
    Unit("sign", check_case, strategy=_cases, quick=500, thorough=20000,
         essential=["both-sections", "stale-signatures", "packages.conda-absent", "style=compact"],
         doc="sign_all_in_repodata: full expected-output differential, idempotence, client path, cross-artifact"),
    Unit("fixtures", check_fixture, enumerate=enum_fixtures, exhaustive=True, shards_quick=10,
         doc="the shipped repodata samples under three keys"),
    _cfgunit.unit_under_config(PROPERTY, 'sign', exclude=()),
    _interfere.unit_after(PROPERTY, 'sign', quick=150, thorough=6000),
]
