"""Lossless JSON transport for generated cases.

Plain JSON cannot carry bytes, NaN/Infinity (portable), tuples, sets, non-str
dict keys or dicts whose keys start with '$'.  Cases are encoded with small
tagged objects so that a replay file reproduces the exact Python value:

    bytes        {"$b": "<hex>"}          bytearray {"$ba": hex}
    float        {"$f": "<float.hex()>"}  (all floats, so 1.0 never becomes 1)
    tuple        {"$t": [...]}            set {"$s": [...]}  frozenset {"$fs": [...]}
    dict (odd)   {"$d": [[k, v], ...]}    (non-str keys or a key starting with '$')
    other        {"$o": "<name>"}         (opaque sentinels: object(), timedelta, ...)

str values (including lone surrogates) survive json.dumps(ensure_ascii=True).
"""
import json
from datetime import timedelta


class Opaque:
    """A named sentinel for Python values that are not data (object(), ...)."""

    def __init__(self, name):
        self.name = name

    def __repr__(self):
        return "Opaque(%s)" % self.name

    def __eq__(self, other):
        return isinstance(other, Opaque) and other.name == self.name

    def __hash__(self):
        return hash(("Opaque", self.name))


def enc(v):
    if v is None or isinstance(v, (bool, str)):
        return v
    if isinstance(v, int):
        return v
    if isinstance(v, float):
        return {"$f": v.hex()}
    if isinstance(v, bytes):
        return {"$b": v.hex()}
    if isinstance(v, bytearray):
        return {"$ba": bytes(v).hex()}
    if isinstance(v, list):
        return [enc(x) for x in v]
    if isinstance(v, tuple):
        return {"$t": [enc(x) for x in v]}
    if isinstance(v, frozenset):
        return {"$fs": sorted((enc(x) for x in v), key=lambda e: json.dumps(e, sort_keys=True))}
    if isinstance(v, set):
        return {"$s": sorted((enc(x) for x in v), key=lambda e: json.dumps(e, sort_keys=True))}
    if isinstance(v, dict):
        if all(isinstance(k, str) and not k.startswith("$") for k in v):
            return {k: enc(x) for k, x in v.items()}
        return {"$d": [[enc(k), enc(x)] for k, x in v.items()]}
    if isinstance(v, timedelta):
        return {"$td": [v.days, v.seconds, v.microseconds]}
    if isinstance(v, Opaque):
        return {"$o": v.name}
    raise TypeError("tagjson cannot encode %r" % type(v))


def dec(e):
    if isinstance(e, list):
        return [dec(x) for x in e]
    if isinstance(e, dict):
        if len(e) == 1:
            (k, x), = e.items()
            if k == "$f":
                return float.fromhex(x)
            if k == "$b":
                return bytes.fromhex(x)
            if k == "$ba":
                return bytearray(bytes.fromhex(x))
            if k == "$t":
                return tuple(dec(y) for y in x)
            if k == "$s":
                return set(dec(y) for y in x)
            if k == "$fs":
                return frozenset(dec(y) for y in x)
            if k == "$d":
                return {dec(a): dec(b) for a, b in x}
            if k == "$td":
                return timedelta(days=x[0], seconds=x[1], microseconds=x[2])
            if k == "$o":
                return Opaque(x)
        return {k: dec(x) for k, x in e.items()}
    return e


def dumps(v, **kw):
    return json.dumps(enc(v), ensure_ascii=True, **kw)


def loads(s):
    return dec(json.loads(s))


def _hashable(x):
    try:
        hash(x)
        return True
    except TypeError:
        return False
