#!/venv/bin/python
"""atheris target for C13: bytes -> structured arguments -> validators and verifiers; the oracle (only documented
error families may come out) lives in the target."""
import copy
import sys

import fuzzlib
from fuzzlib import OracleFailure, decode, fixtures, flush_stats, stat

try:
    import atheris   # present in campaigns (PYTHONPATH has /verif/.deps); absent when only replaying an input
    _instrument = atheris.instrument_imports(include=["conda_content_trust"])
except ImportError:
    import contextlib
    atheris = None
    _instrument = contextlib.nullcontext()

with _instrument:
    from conda_content_trust import authentication as A, common as C

FAMILY = (C.CCT_Error, TypeError, ValueError)


def _call(name, f, *a, **kw):
    try:
        f(*a, **kw)
        stat("accept:" + name)
    except FAMILY:
        stat("reject:" + name)
    except RecursionError:
        pass
    except Exception as e:
        from props import C13
        where = C13.innermost_repo_frame(e)
        raise OracleFailure("%s raised %s (%s) at %s on fuzz-derived arguments" % (name, type(e).__name__, str(e)[:100], where),
                            bucket="escape %s at %s" % (type(e).__name__, where))


def one_input(data):
    d = decode(data)
    flush_stats()
    if d is None:
        return
    mode, doc = d
    fx = fixtures()
    _call("checkformat_delegating_metadata", C.checkformat_delegating_metadata, copy.deepcopy(doc))
    _call("verify_root(T, x)", A.verify_root, fx["T"], copy.deepcopy(doc))
    _call("verify_root(x, N)", A.verify_root, copy.deepcopy(doc), fx["N"])
    for role in ("key_mgr", "root", "pkg_mgr"):
        _call("verify_delegation(role, x, N)", A.verify_delegation, role, copy.deepcopy(doc), fx["N"])
        _call("verify_delegation(role, K, x)", A.verify_delegation, role, fx["K"], copy.deepcopy(doc))
    _call("verify_delegation(gpg)", A.verify_delegation, "root", copy.deepcopy(doc), fx["T"], gpg=True)
    pubs = list(fx["T"]["signed"]["delegations"]["root"]["pubkeys"])
    _call("verify_signable(x)", A.verify_signable, copy.deepcopy(doc), pubs, 1)
    _call("verify_signable(x, gpg)", A.verify_signable, copy.deepcopy(doc), pubs, 2, gpg=True)
    if isinstance(doc, dict):
        for k, v in list(doc.items())[:4]:
            _call("verify_signable(P, keys=x)", A.verify_signable, fx["P"], v, 1)
            _call("checkformat_delegation", C.checkformat_delegation, v)
            _call("checkformat_any_signature", C.checkformat_any_signature, v)
            _call("checkformat_delegations", C.checkformat_delegations, v)
            _call("checkformat_natural_int", C.checkformat_natural_int, v)
            _call("checkformat_utc_isoformat", C.checkformat_utc_isoformat, v)


def main():
    atheris.Setup(sys.argv, one_input)
    atheris.Fuzz()


if __name__ == "__main__":
    main()
