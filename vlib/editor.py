"""Model-based check of the interactive metadata editor (`conda-content-trust modify-metadata <file>`), the one signing /
persisting path of the tool that the repository's tests leave out ("difficult to test this interactive command").

A session is plain data: a list of operations typed at the prompts -
    ["sign", <private key hex as typed: may carry blanks / upper case, the editor normalizes>]
    ["thresh", <delegation name>, <new value as typed>]
    ["noop", <menu number 3,4,5,6,8,9>]          (unimplemented menu entries: must change nothing)
    ["junk", <text>]                             (invalid menu choice)
    ["write", <file name>] | ["abort"]
The model keeps the document next to the real session: "sign" files the RFC 8032 signature over the canonical form of the signed
part AS IT IS AT THAT MOMENT under the signer's public key, replacing an older entry under that key and touching no other entry;
"thresh" changes one number if the delegation exists and the text is an integer >= 1; "write" stores the canonical serialization
of exactly that document.  Afterwards: the bytes written == canonical bytes of the model document (nothing dropped, nothing
refreshed, nothing stale), or no file at all after "abort"."""
import builtins
import contextlib
import copy
import io
import os

from hypothesis import strategies as st

from . import gen_json as G, gen_metadata as GM, keys, ref_openpgp
from .ref_canon import canon
from .runner import Violation


def model(doc, ops, d):
    doc = copy.deepcopy(doc)
    written = {}
    for op in ops:
        if op[0] == "sign":
            k = "".join(op[1].split()).lower()
            seed = bytes.fromhex(k)
            doc["signatures"][keys.pub_hex(seed)] = {"signature": keys.sign_raw(seed, canon(doc["signed"])).hex()}
        elif op[0] == "thresh":
            dels = doc["signed"].get("delegations", {})
            if op[1] in dels:
                try:
                    n = int(op[2])
                except (ValueError, TypeError):
                    continue
                if n >= 1:
                    dels[op[1]]["threshold"] = n
        elif op[0] == "write":
            written[os.path.join(d, op[1])] = canon(doc)
            return written
        elif op[0] == "abort":
            return written
    return written


def typed(ops):
    out = []
    for op in ops:
        if op[0] == "sign":
            out += ["2", op[1]]
        elif op[0] == "thresh":
            out += ["7", op[1]] + ([op[2]] if op[3] else [])
        elif op[0] == "noop":
            out += [str(op[1])]
        elif op[0] == "junk":
            out += [op[1]]
        elif op[0] == "write":
            out += ["0", op[1]]
        elif op[0] == "abort":
            out += ["1"]
    return out


def run_session(fn, ops, d, via):
    from conda_content_trust import cli as CLI, common as C
    lines = []
    for op in ops:
        if op[0] == "write":
            op = ["write", os.path.join(d, op[1])]
        lines.append(op)
    feed = iter(typed(lines))
    real = builtins.input

    def fake(prompt=""):
        try:
            return next(feed)
        except StopIteration:
            raise EOFError
    builtins.input = fake
    try:
        with contextlib.redirect_stdout(io.StringIO()), contextlib.redirect_stderr(io.StringIO()):
            if via == "cli":
                CLI.cli(["modify-metadata", fn])
            else:
                CLI.interactive_modify_metadata(C.load_metadata_from_file(fn))
    finally:
        builtins.input = real


@st.composite
def sessions(draw):
    seeds = draw(keys.seed_lists(2, 4))
    pubs = [keys.pub_hex(s) for s in seeds]
    signed = draw(GM.signed_parts(pubs, min_roles=1))
    doc = GM.wrap(signed)
    B = canon(signed)
    # entries that are already there: a colleague's OpenPGP signature, a raw one, a stale one under a key that will sign again
    for i, s in enumerate(seeds):
        pre = draw(st.sampled_from(["none", "gpg", "raw", "stale-raw", "stale-gpg"]))
        if pre == "gpg":
            doc["signatures"][pubs[i]] = ref_openpgp.entry(s, B)
        elif pre == "raw":
            doc["signatures"][pubs[i]] = {"signature": keys.sign_raw(s, B).hex()}
        elif pre == "stale-raw":
            doc["signatures"][pubs[i]] = {"signature": keys.sign_raw(s, b"an older version").hex()}
        elif pre == "stale-gpg":
            doc["signatures"][pubs[i]] = ref_openpgp.entry(s, b"an older version")
    roles = sorted(signed["delegations"])
    ops = []
    for _ in range(draw(st.integers(1, 7))):
        kind = draw(st.sampled_from(["sign", "sign", "thresh", "thresh", "noop", "junk"]))
        if kind == "sign":
            h = draw(st.sampled_from(seeds)).hex()
            spell = draw(st.sampled_from(["plain", "upper", "blanks"]))
            ops.append(["sign", h.upper() if spell == "upper" else " ".join(h[i:i + 8] for i in range(0, 64, 8)) + " " if spell == "blanks" else h])
        elif kind == "thresh":
            role = draw(st.sampled_from(roles + ["no such role"]))
            val = draw(st.sampled_from(["1", "2", "3", "7", "0", "-1", "two", "", "2.0", " 4 "]))
            ops.append(["thresh", role, val, role in roles])
        elif kind == "noop":
            ops.append(["noop", draw(st.sampled_from([3, 4, 5, 6, 8, 9]))])
        else:
            ops.append(["junk", draw(st.sampled_from(["", "x", "10", "-1", "2.0"]))])
    ops.append(draw(st.sampled_from([["write", "out.json"], ["write", "out.json"], ["write", "in.json"], ["abort"]])))
    return {"doc": doc, "ops": ops, "via": draw(st.sampled_from(["cli", "function"]))}


def check_session(case):
    import shutil
    import tempfile
    d = tempfile.mkdtemp(prefix="editor-")
    try:
        fn = os.path.join(d, "in.json")
        original = canon(case["doc"])
        with open(fn, "wb") as f:
            f.write(original)
        want = model(case["doc"], case["ops"], d)
        try:
            run_session(fn, case["ops"], d, case["via"])
        except EOFError:
            raise Violation("the editor asked for more input than the session's operations account for (ops %r)" % (case["ops"],),
                            bucket="editor: unexpected prompt")
        except Exception as e:      # noqa: BLE001
            raise Violation("the editor session %r raised %s: %s" % (case["ops"], type(e).__name__, str(e)[:100]), bucket="editor raises " + type(e).__name__)
        have = {}
        for name in os.listdir(d):
            have[os.path.join(d, name)] = open(os.path.join(d, name), "rb").read()
        expect = {fn: original}
        expect.update(want)
        if set(have) != set(expect):
            raise Violation("after the editor session %r the directory holds %r, expected %r" % (
                case["ops"], sorted(os.path.basename(x) for x in have), sorted(os.path.basename(x) for x in expect)), bucket="editor: files")
        for path, data in expect.items():
            if have[path] != data:
                import json
                what = "other bytes"
                try:
                    got, exp = json.loads(have[path]), json.loads(data)
                    if got.get("signed") != exp.get("signed"):
                        what = "the signed part differs from what the session produced (field(s) %s)" % sorted(
                            k for k in set(got["signed"]) | set(exp["signed"]) if got["signed"].get(k) != exp["signed"].get(k))
                    elif set(got["signatures"]) != set(exp["signatures"]):
                        what = "signature entries dropped / added: have %d, expected %d" % (len(got["signatures"]), len(exp["signatures"]))
                    else:
                        what = "a signature entry is not the one the session produced (stale, or not RFC 8032 over the content written)"
                except Exception:       # noqa: BLE001
                    pass
                raise Violation("the file written by the editor session %r is not the canonical serialization of the document the "
                                "session produced: %s" % (case["ops"], what), bucket="editor: " + what[:50])
    finally:
        shutil.rmtree(d, ignore_errors=True)
    kinds = [o[0] for o in case["ops"]]
    resign = sum(1 for o in case["ops"] if o[0] == "sign") >= 2 or any(
        isinstance(v, dict) and "other_headers" in v for v in case["doc"]["signatures"].values())
    return {"nontrivial": "sign" in kinds and kinds[-1] == "write", "labels": sorted(set(kinds)) + ["via=" + case["via"]] + (["resign-or-gpg-present"] if resign else [])}


def unit(quick=300, thorough=10000):
    from .runner import Unit
    return Unit("editor", check_session, strategy=sessions, quick=quick, thorough=thorough,
                doc="interactive modify-metadata sessions (sign with raw keys in any spelling, change thresholds, unimplemented and invalid "
                    "menu entries, save / save over the input / abort) against a model: the bytes written == canonical bytes of the "
                    "model document; nothing dropped, refreshed or stale")
