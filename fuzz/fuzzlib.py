"""Shared pieces of the atheris targets: decoding bytes into structured arguments, fixtures, stats."""
import json
import os
import sys

ROOT = os.path.dirname(os.path.dirname(os.path.abspath(__file__)))
REPO = os.environ.get("VERIF_REPO", "/repo")
for p in (ROOT, REPO):
    if p not in sys.path:
        sys.path.insert(0, p)


class OracleFailure(Exception):
    def __init__(self, msg, bucket=None):
        super().__init__(msg)
        self.bucket = bucket


STATS = {}
_n = [0]


def stat(k):
    STATS[k] = STATS.get(k, 0) + 1


def flush_stats(force=False):
    _n[0] += 1
    path = os.environ.get("VERIF_FUZZ_STATS")
    if path and (force or _n[0] % 2000 == 0):
        with open(path, "w") as f:
            for k, v in sorted(STATS.items()):
                f.write("%s=%d\n" % (k, v))


def depth(v, d=0):
    if d > 60:
        return d
    if type(v) is dict:
        return max([depth(x, d + 1) for x in v.values()] + [d])
    if type(v) is list:
        return max([depth(x, d + 1) for x in v] + [d])
    return d


_FIXTURE_TEXTS = None


def fixtures():
    """name -> document (fresh copies)"""
    global _FIXTURE_TEXTS
    if _FIXTURE_TEXTS is None:
        from props import C13
        f = C13.fx()
        _FIXTURE_TEXTS = {k: json.dumps(f[k]) for k in ("T", "N", "K", "P")}
    return {k: json.loads(v) for k, v in _FIXTURE_TEXTS.items()}


def decode(data):
    """bytes -> (mode, document) or None.  mode 0: the bytes are JSON text; 1: a mutation program over a
    fixture; 2: a fixture's JSON text with a region overwritten by the fuzz bytes."""
    if len(data) < 2:
        return None
    from vlib import gen_json as G, gen_mutate as MU
    mode = data[0] % 3
    body = data[1:]
    try:
        if mode == 0:
            doc = json.loads(body.decode("utf-8", "surrogatepass"))
        elif mode == 1:
            fx = fixtures()
            doc = fx["TNKP"[body[0] % 4]]
            prog = body[1:13]
            for i in range(0, len(prog) - 2, 3):
                ps = list(G.paths(doc))
                path = list(ps[(prog[i] * 256 + prog[i + 1]) % len(ps)])
                op = MU.OPS[prog[i + 2] % len(MU.OPS)]
                r = MU.apply(doc, {"path": path, "op": op})
                if r is MU.INAPPLICABLE:
                    r = MU.apply(doc, {"path": path, "op": "replace:%d" % (prog[i + 2] % len(MU.REPLACEMENTS))})
                doc = r
                if not isinstance(doc, (dict, list)):
                    break
        else:
            text = _FIXTURE_TEXTS["TNKP"[body[0] % 4]] if _FIXTURE_TEXTS else (fixtures() and _FIXTURE_TEXTS["TNKP"[body[0] % 4]])
            if len(body) < 4:
                return None
            pos = (body[1] * 256 + body[2]) % len(text)
            ins = body[3:].decode("utf-8", "replace")
            cut = min(len(text), pos + len(ins) // 2)
            doc = json.loads(text[:pos] + ins + text[cut:])
    except (ValueError, RecursionError, UnicodeDecodeError):
        stat("undecodable")
        return None
    if depth(doc) > 50:
        stat("too-deep")
        return None
    stat("mode%d" % mode)
    return mode, doc
