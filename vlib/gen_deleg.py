"""Generator of delegation-check cases (C05, C06, C13): multi-role trusted metadata, an untrusted
envelope signed so as to satisfy *some* role, and a role to ask for."""
from hypothesis import strategies as st

from . import gen_envelope as GE, gen_json as G, gen_metadata as GM, keys, ref_openpgp
from .ref_canon import canon

LAYOUTS = ["disjoint", "nested", "equal", "overlap", "any"]


@st.composite
def delegation_cases(draw, force_kind=None, sign_for_asked=False):
    seeds = draw(keys.seed_lists(3, 6))
    n = len(seeds)
    pubs = [keys.pub_hex(s) for s in seeds]
    gpg = draw(st.booleans())
    roles = draw(st.lists(GM.role_names, min_size=2, max_size=4, unique=True))
    if draw(st.integers(0, 2)) and "key_mgr" not in roles:
        roles[0] = "key_mgr"
    if draw(st.integers(0, 2)) == 0 and "root" not in roles:
        roles[-1] = "root"
    layout = draw(st.sampled_from(LAYOUTS))
    idx = list(range(n))
    dels = {}
    for j, r in enumerate(roles):
        if layout == "disjoint":
            ks = idx[j::len(roles)]
        elif layout == "nested":
            ks = idx[: max(1, n - j)]
        elif layout == "equal":
            ks = idx[: max(1, n // 2)]
        elif layout == "overlap":
            ks = idx[j: j + 2] or idx[-1:]
        else:
            ks = GM.subset_by_mask(idx, draw(st.integers(0, 2 ** n - 1)))
        ks = list(draw(st.permutations(ks)))
        thr = draw(st.sampled_from([1, max(1, len(ks)), max(1, len(ks) - 1), len(ks) + 1]))
        dels[r] = {"pubkeys": [pubs[i] for i in ks], "threshold": thr, "_idx": ks}
    ttype = draw(st.sampled_from(["root", "key_mgr"]))
    # which role the signatures aim to satisfy, and which is asked
    aim = draw(st.sampled_from(roles + [r for r in roles if r in ("root", "key_mgr")] * 2))
    ask_kind = "aim" if sign_for_asked else draw(st.sampled_from(["aim", "aim", "other", "undelegated", "nearmiss"]))
    if ask_kind == "aim":
        asked = aim
    elif ask_kind == "other":
        asked = draw(st.sampled_from([r for r in roles if r != aim] or roles))
    elif ask_kind == "nearmiss":
        import unicodedata
        cands = [aim.upper(), aim + " ", aim + ".json", aim[:-1], " " + aim, aim.capitalize(), aim + "\x00",
                 unicodedata.normalize("NFD", aim), unicodedata.normalize("NFC", aim), unicodedata.normalize("NFKC", aim)]
        cands = [c for c in cands if c != aim]
        asked = draw(st.sampled_from([c for c in cands if c not in dels] or ["nobody"]))
    else:
        asked = draw(st.sampled_from([r for r in GM.ROLE_NAMES + ["nobody"] if r not in dels]))
    # the untrusted payload
    kind = force_kind or draw(st.sampled_from(["delegating", "delegating", "arbitrary", "record"]
                                              if asked in ("root", "key_mgr") else
                                              ["delegating", "arbitrary", "arbitrary", "record"]))
    if kind == "delegating":
        if asked in ("root", "key_mgr"):
            utype = draw(st.sampled_from([asked, asked, asked, "root", "key_mgr"]))
        else:
            utype = draw(st.sampled_from(["root", "key_mgr"]))
        own = {"pkg_mgr": {"pubkeys": pubs[:2], "threshold": 1}}
        if draw(st.booleans()):
            # names the signer keys for the asked role inside the untrusted side
            own[asked] = {"pubkeys": pubs, "threshold": 1}
        if utype == "root" or draw(st.booleans()):
            own.setdefault("root", {"pubkeys": pubs[:1], "threshold": 1})
        ts_ = draw(st.one_of(st.none(), GM.utc_times))
        # version is optional for non-root metadata that carries a timestamp
        ver_ = None if (utype != "root" and ts_ is not None and draw(st.integers(0, 2)) == 0) else draw(st.integers(1, 9))
        payload = GM.signed_part(utype, own, version=ver_, timestamp=ts_)
    elif kind == "record":
        payload = draw(G.package_record)
    else:
        payload = draw(G.payloads)
    # signers
    aim_idx = dels[aim]["_idx"]
    aim_thr = dels[aim]["threshold"]
    plan = draw(st.sampled_from(["meet", "meet", "meet", "one_short", "outsiders", "any"]))
    if plan == "meet":
        signers = list(aim_idx[:aim_thr])
    elif plan == "one_short":
        signers = list(aim_idx[:max(0, aim_thr - 1)])
    elif plan == "outsiders":
        signers = [i for i in idx if i not in aim_idx]
    else:
        signers = GM.subset_by_mask(idx, draw(st.integers(0, 2 ** n - 1)))
    U = GM.wrap(payload)
    B = canon(payload)
    # entries under authorized keys that do not count (malformed value, stale signature), filed BEFORE the real ones
    for i in [j for j in aim_idx if j not in signers][:draw(st.integers(0, 2))]:
        U["signatures"][pubs[i]] = draw(st.sampled_from([None, "ab" * 64, {"signature": "abcd"}, 7, [],
                                                         {"signature": keys.sign_raw(seeds[i], b"an older version").hex()}]))
    for i in signers:
        wrong_mode = draw(st.integers(0, 9)) == 0
        U["signatures"][pubs[i]] = GE.make_entry(draw, seeds[i], B, gpg != wrong_mode)
    for r in dels.values():
        del r["_idx"]
    T = GM.wrap(GM.signed_part(ttype, dels, version=draw(st.integers(1, 9))))
    # one case in six: the trusted metadata carries a near-miss of a field's grammar (another time spelling - offsets instead of
    # Z, a blank instead of T, no seconds, date only -, or a version / timestamp that is present but falsy): whether it still
    # counts as well-formed is the reference schema's call (gray spellings are not asserted)
    tflaw = draw(st.sampled_from(["none"] * 5 + ["time", "falsy", "key-spelling"] if not sign_for_asked else ["none"]))
    if tflaw == "time":
        from . import gen_mutate as MU
        f = draw(st.sampled_from(["expiration", "timestamp"]))
        new = MU._edit(T["signed"][f], "time:" + draw(st.sampled_from(MU.TIME_EDITS)))
        if new is not None:
            T["signed"][f] = new
    elif tflaw == "key-spelling":
        # one key of the asked (or any) role listed in another spelling: upper / mixed case, one letter capitalised, a blank
        rs = [r for r in T["signed"]["delegations"] if T["signed"]["delegations"][r]["pubkeys"]]
        if rs:
            r = asked if asked in rs else rs[0]
            ks = T["signed"]["delegations"][r]["pubkeys"]
            i = draw(st.integers(0, len(ks) - 1))
            k = ks[i]
            cands = [k.upper(), k[:10].upper() + k[10:], k[:-8] + k[-8:].upper(), k + " ", " " + k]
            for j, ch in enumerate(k):
                if ch in "abcdef":
                    cands.append(k[:j] + ch.upper() + k[j + 1:])
                    break
            v = draw(st.sampled_from([c for c in cands if c != k]))
            if draw(st.booleans()):
                ks[i] = v            # the spelling replaces the key
            else:
                ks.append(v)         # ... or sits next to it
            if k in U["signatures"] and draw(st.booleans()):
                import copy as _copy
                U["signatures"][v] = _copy.deepcopy(U["signatures"][k])
    elif tflaw == "falsy":
        T["signed"][draw(st.sampled_from(["version", "timestamp", "version"]))] = draw(st.sampled_from([0, None, False, "", 0.0, [], {}]))
    return {"role": asked, "U": U, "T": T, "gpg": gpg, "aim": aim, "ask_kind": ask_kind, "kind": kind,
            "plan": plan, "layout": layout}
