class Error(Exception):
    pass


class FormatError(Error):
    pass
