"""C06 - the declared metadata type is bound to the role by signed content alone."""
import copy

from hypothesis import strategies as st

from conda_content_trust import authentication as A

from props import C03
from vlib import cfgunit, configrun, hostile, gen_deleg, gen_envelope as GE, gen_json as G, gen_metadata as GM, keys, ref_grammar as g, \
    ref_schema, ref_verify as RV
from vlib.ref_canon import canon
from vlib.runner import Unit, Violation
from vlib import clicheck as _clicheck
from vlib import threaded as _threaded
from vlib import interfere as _interfere, interrupt as _interrupt

PROPERTY = "C06"
LEVEL = "exploration"
RULE = ("(i) direct: validly signed delegating metadata of type X presented for a delegated role R != X, signed by "
        "enough of R's keys, with the unsigned signature map manipulated (junk entries of any JSON shape, reordering, "
        "duplicates of entries under other spellings of their key, extra unauthorized signatures) - must never be "
        "accepted. (ii) metamorphic: for generated envelopes, whenever verify_signable / verify_delegation / "
        "verify_root accepts E it must accept strip(E), the envelope keeping exactly the valid signatures by "
        "authorized keys; and whenever it rejects E it must reject E plus any additions that are not valid authorized "
        "signatures. Non-trivial = (i) the map was manipulated and the type differs from the role; (ii) E accepted "
        "and at least one entry stripped, or E rejected and at least one entry added.")
ASSUMPTIONS = ["cryptography raw Ed25519 as oracle primitive (cross-checked in C19)"]

MANIP = st.lists(st.tuples(st.one_of(G.strings, keys.ghost_keys), GE.JUNK_VALUES), max_size=5)


# ---- (i) direct ---------------------------------------------------------------------------------------

@st.composite
def _binding_cases(draw):
    seeds = draw(keys.seed_lists(2, 5))
    pubs = [keys.pub_hex(s) for s in seeds]
    gpg = draw(st.booleans())
    utype = draw(st.sampled_from(["root", "key_mgr"]))
    role = draw(st.sampled_from([r for r in ["root", "key_mgr", "pkg_mgr", "x"] if r != utype]))
    thr = draw(st.integers(1, len(seeds)))
    same_rule = draw(st.booleans())     # both roles delegated to the very same key set and threshold (one key pair for two roles)
    T = GM.wrap(GM.signed_part(draw(st.sampled_from(["root", "key_mgr"])), {
        role: {"pubkeys": pubs, "threshold": thr},
        utype: {"pubkeys": list(pubs), "threshold": thr} if same_rule else {"pubkeys": pubs[:1], "threshold": 1}}, version=2))
    payload = draw(GM.signed_parts(pubs, type_=utype))
    U = GM.wrap(payload)
    GM.sign_envelope(U, seeds[:draw(st.integers(thr, len(seeds)))], gpg)
    # manipulations of the unsigned part
    junk = draw(MANIP)
    for k, v in junk:
        U["signatures"].setdefault(k, v)
    dups = draw(st.integers(0, 2))
    for p in pubs[:dups]:
        if p in U["signatures"]:
            U["signatures"][draw(st.sampled_from(GE.key_variants(p)))] = copy.deepcopy(U["signatures"][p])
    U["signatures"] = dict(draw(st.permutations(list(U["signatures"].items()))))
    return {"role": role, "U": U, "T": T, "gpg": gpg, "n_manip": len(junk) + dups}


def check_binding(case):
    role, U, T, gpg = case["role"], case["U"], case["T"], case["gpg"]
    if ref_schema.signed_is_delegating(U["signed"]) != "yes" or U["signed"]["type"] == role:
        raise Violation("harness: case is not a type/role mismatch", bucket="harness")
    # history: the same envelope is first verified legitimately - for the role it declares, and as a plain signable -
    # and only then presented for the other role
    utype = U["signed"]["type"]
    RV.outcome(A.verify_delegation, utype, copy.deepcopy(U), copy.deepcopy(T), gpg=gpg)
    RV.outcome(A.verify_delegation, utype, U, T, gpg=gpg)
    RV.outcome(A.verify_signable, U, T["signed"]["delegations"][role]["pubkeys"], T["signed"]["delegations"][role]["threshold"], gpg=gpg)
    if utype == "root" and gpg:
        RV.outcome(A.verify_root, T, U)
    observed, exc = RV.outcome(A.verify_delegation, role, U, T, gpg=gpg)
    if observed == "accept":
        raise Violation("metadata declaring type %r was accepted as role %r (signature map has %d entries, "
                        "%d manipulations)" % (U["signed"]["type"], role, len(U["signatures"]), case["n_manip"]),
                        bucket="type not bound to role")
    hostile.never_accepts(lambda: (lambda u=copy.deepcopy(U), t=copy.deepcopy(T): A.verify_delegation(role, u, t, gpg=gpg)),
                          "verify_delegation(%r) on metadata declaring type %r" % (role, utype))
    return {"nontrivial": case["n_manip"] > 0, "labels": ["observed=" + observed, "manip=%d" % min(case["n_manip"], 4),
                                                           "gpg" if gpg else "raw"]}


# ---- (ii) strip / add relations ------------------------------------------------------------------------

def strip(env, authorized, gpg):
    payload = canon(env["signed"])
    auth = set(authorized)
    keep = {}
    for k, e in env["signatures"].items():
        if g.is_key(k) and k in auth and RV.entry_class(k, e, payload, gpg) in ("counts", "may"):
            keep[k] = e
    return {"signatures": keep, "signed": env["signed"]}


def _relation(name, call, E, authorized, gpg, additions):
    """call(envelope) -> outcome; checks both relations; returns labels."""
    obs = call(copy.deepcopy(E))
    S = strip(E, authorized, gpg)
    stripped = len(E["signatures"]) - len(S["signatures"])
    labs = [name + ":" + ("accept" if obs == "accept" else "reject")]
    nontrivial = False
    if obs == "accept":
        obs_s = call(copy.deepcopy(S))
        if obs_s != "accept":
            raise Violation("%s accepted an envelope but rejects (%s) the same envelope keeping only its %d valid "
                            "authorized signatures (%d entries stripped)" % (name, obs_s, len(S["signatures"]), stripped),
                            bucket=name + " acceptance depends on non-counting entries")
        nontrivial = stripped > 0
        labs.append("stripped>0" if stripped else "stripped=0")
    else:
        E2 = copy.deepcopy(E)
        added = 0
        for k, v in additions:
            if k in E2["signatures"]:
                continue
            if g.is_key(k) and k in set(authorized) and RV.entry_class(k, v, canon(E["signed"]), gpg) != "no":
                continue   # that would be a valid authorized signature: excluded by the statement
            E2["signatures"][k] = v
            added += 1
        obs2 = call(E2)
        if obs2 == "accept":
            raise Violation("%s rejected an envelope (%s) but accepts it after %d additions to the unsigned signature "
                            "map none of which is a valid authorized signature" % (name, obs, added),
                            bucket=name + " rejection turned into acceptance by junk")
        nontrivial = added > 0
        labs.append("added>0" if added else "added=0")
    return nontrivial, labs


@st.composite
def _signable_cases(draw):
    c = draw(GE.envelopes())
    c["add"] = draw(MANIP)
    return c


def check_strip_signable(case):
    E = GE.to_envelope(case)
    call = lambda e: RV.outcome(A.verify_signable, e, case["authorized"], case["threshold"], gpg=case["gpg"])[0]
    nt, labs = _relation("verify_signable", call, E, case["authorized"], case["gpg"], case["add"])
    return {"nontrivial": nt, "labels": labs}


@st.composite
def _deleg_cases(draw):
    c = draw(gen_deleg.delegation_cases())
    c["add"] = draw(MANIP)
    # adversarial extras already in the map
    for k, v in draw(MANIP):
        c["U"]["signatures"].setdefault(k, v)
    return c


def check_strip_delegation(case):
    role, U, T, gpg = case["role"], case["U"], case["T"], case["gpg"]
    auth = T["signed"]["delegations"].get(role, {}).get("pubkeys", [])
    call = lambda e: RV.outcome(A.verify_delegation, role, e, T, gpg=gpg)[0]
    nt, labs = _relation("verify_delegation", call, U, auth, gpg, case["add"])
    return {"nontrivial": nt, "labels": labs + ["payload=" + case["kind"]]}


@st.composite
def _root_cases(draw):
    c = draw(C03.root_pairs())
    c["add"] = draw(st.lists(st.tuples(st.one_of(G.strings, keys.ghost_keys), st.one_of(
        st.just({"signature": "00" * 64}), st.just({"other_headers": "04", "signature": "ab" * 64}),
        GE.JUNK_VALUES)), max_size=4))
    # non-counting but well-formed extras already present (the envelope stays well-formed metadata)
    for k, v in draw(st.lists(st.tuples(st.one_of(G.strings, keys.ghost_keys), st.sampled_from([
            {"signature": "00" * 64}, {"other_headers": "04", "signature": "ab" * 64},
            {"other_headers": "04ff", "signature": "cd" * 64, "see_also": "ef" * 20}])), max_size=3)):
        c["N"]["signatures"].setdefault(k, v)
    return c


def check_strip_root(case):
    T, N = case["T"], case["N"]
    auth = []
    for M in (T, N):
        try:
            auth += M["signed"]["delegations"]["root"]["pubkeys"]
        except (KeyError, TypeError):
            pass
    auth = [k for k in auth if g.is_key(k)]
    call = lambda e: RV.outcome(A.verify_root, T, e)[0]
    nt, labs = _relation("verify_root", call, N, auth, True, case["add"])
    return {"nontrivial": nt, "labels": labs + ["flaw=" + case["flaw"]]}


@st.composite
def _config_cases(draw):
    calls = []
    for _ in range(draw(st.integers(2, 4))):
        c = draw(_binding_cases())
        calls.append(["verify_delegation", c["role"], c["U"], c["T"], c["gpg"]])
    # non-ASCII role name on an ASCII / closed stdout: diagnostics must not decide the verdict
    c = draw(_binding_cases())
    role = draw(st.sampled_from(["caf\u00e9", "r\u043eot", "\ud800"]))
    T = c["T"]
    T["signed"]["delegations"][role] = T["signed"]["delegations"][c["role"]]
    calls.append(["verify_delegation", role, c["U"], T, c["gpg"]])
    cfg = draw(configrun.configs)
    cfg["stdout"] = draw(st.sampled_from([None, "closed", "broken"]))
    cfg["PYTHONIOENCODING"] = draw(st.sampled_from(["ascii", "ascii", "utf-8", None]))
    return {"calls": calls, "config": cfg}


def check_config(case):
    verdicts, labels, count = cfgunit.config_probe(case["calls"], "sound", case["config"])
    if "accept" in verdicts:
        raise Violation("type-mismatched metadata accepted under configuration %r" % case["config"], bucket="type not bound to role")
    return {"nontrivial": True, "labels": labels, "count": count}


def _interrupted_sweep_cases():
    from props import C12
    return C12._sweep_cases().map(lambda c: dict(c, entry='verify_delegation', kind=c["kind"] if c["kind"] in ['invalid', 'unauthorized'] else 'invalid'))


def check_interrupted_sweep(case):
    from props import C12
    return C12.check_fault_sweep(case)


UNITS = [
    Unit("interrupted_sweep", check_interrupted_sweep, strategy=_interrupted_sweep_cases, quick=18, thorough=500, shards_quick=3,
         doc="every line event and every C-level call of one verify_delegation interrupted once on a fresh envelope, each followed by a normal retry of the same envelope"),
    Unit("config", check_config, strategy=_config_cases, quick=96, thorough=600, shards_quick=16, shrink=False,
         doc="type binding in fresh interpreters: closed / ASCII stdout with non-ASCII role names, logging level, -O, warnings, environment variables"),
    Unit("type_binding", check_binding, strategy=_binding_cases, quick=800, thorough=30000,
         essential=["manip=0", "manip=1"],
         doc="type X metadata validly signed for role R != X is never accepted as R, whatever the signature map holds"),
    Unit("strip_signable", check_strip_signable, strategy=_signable_cases, quick=800, thorough=30000,
         essential=["stripped>0", "added>0"], doc="strip / add relations on verify_signable"),
    Unit("strip_delegation", check_strip_delegation, strategy=_deleg_cases, quick=800, thorough=30000,
         essential=["stripped>0", "added>0"], doc="strip / add relations on verify_delegation"),
    Unit("strip_root", check_strip_root, strategy=_root_cases, quick=600, thorough=20000,
         essential=["stripped>0", "added>0"], doc="strip / add relations on verify_root"),
    _interfere.unit_after(PROPERTY, 'type_binding', quick=150, thorough=6000),
    _interrupt.unit_interrupted(PROPERTY, 'type_binding', quick=12, thorough=300, max_points=50, shards_quick=12),
    _threaded.unit_threads(PROPERTY),
    _clicheck.unit_cli(),
    cfgunit.unit_under_clocks(PROPERTY, 'type_binding'),
]
