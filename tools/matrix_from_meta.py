#!/usr/bin/env python3
"""Write seeded/MATRIX.md from the verdicts recorded in seeded/<id>/meta.json (each written by tools/seed_eval.py or
tools/seed_matrix.py when the check was last run against that change); no check is run here."""
import json
import os

VERIF = os.path.dirname(os.path.dirname(os.path.abspath(__file__)))
sd = os.path.join(VERIF, "seeded")
rows = []
for sid in sorted(os.listdir(sd)):
    mp = os.path.join(sd, sid, "meta.json")
    if not os.path.exists(mp):
        continue
    m = json.load(open(mp))
    prop = m["breaks_property"]
    v = m.get("checks", {}).get(prop, {}).get("verdict", "not run")
    rows.append((sid, prop, v))
lines = ["# Seeded changes x own check", "",
         "Each row is a change to conda/conda-content-trust that breaks the named property while the repository's own tests still",
         "pass (confirmed in a scratch copy, see meta.json).  KILLED = the quick check of that property reports a VIOLATION on the",
         "changed tree (VERIF_SEED=1), SURVIVED = it stays quiet (the survivors are discussed in DESIGN.md 17.4, 17.7, 17.8).", "",
         "Rounds: s = free choice (1), r = cooperating sites / configuration / cross-API history (2), t = fault / unusual input / free (3),",
         "u = scale / process state / least-exercised path (4), v = most realistic, free (5), w = lint / compatibility / hardening",
         "contributor (6), x = new option / slip in a rare branch / diagnostics change (7).", "",
         "| change | breaks | own check |", "|---|---|---|"]
for sid, prop, v in rows:
    lines.append("| %s | %s | %s |" % (sid, prop, v))
k = sum(1 for r in rows if r[2] == "KILLED")
lines += ["", "%d changes, %d caught by the check of the property they break; not caught: %s" % (
    len(rows), k, ", ".join(r[0] for r in rows if r[2] != "KILLED") or "-")]
with open(os.path.join(sd, "MATRIX.md"), "w") as f:
    f.write("\n".join(lines) + "\n")
print(lines[-1])
