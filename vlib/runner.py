"""Check runner: seeding, sharding, counting, shrinking, replay files, evidence.

A property module (props/Cxx.py) exports

    PROPERTY = "Cxx"
    LEVEL = "exploration" | "fault_enumeration"
    RULE = "<how cases are generated and what makes one non-trivial>"
    ASSUMPTIONS = [...]
    UNITS = [Unit(...), ...]

A Unit couples a generator of *cases* (plain data, tagjson-encodable) with an
oracle `check(case) -> Info | dict | None` that raises `Violation` when the
property is broken on that case.  Because cases are plain data, the replay of a
shrunk failure is simply `check(case)` again, without Hypothesis.

Exit codes of run(): 0 held, 1 violation (a VIOLATION line is printed), 2 harness
error / inconclusive.
"""
from __future__ import annotations

import hashlib
import io
import json
import multiprocessing
import os
import sys
import time
import traceback
from collections import Counter

from . import tagjson

ROOT = os.path.dirname(os.path.dirname(os.path.abspath(__file__)))
REPO = os.environ.get("VERIF_REPO", "/repo")
NPROC = int(os.environ.get("VERIF_NPROC", "16"))
OUT = os.environ.get("VERIF_OUT_DIR", ROOT)   # evidence/ and out/ live here (mutant runs redirect it)


class Violation(Exception):
    """The property is broken on the current case."""

    def __init__(self, msg, bucket=None):
        super().__init__(msg)
        self.msg = msg
        self.bucket = bucket or msg.split(":")[0][:80]


class Inconclusive(Exception):
    """The harness could not decide (generator problem, budget); never a violation."""


class Unit:
    def __init__(self, name, check, strategy=None, enumerate=None, quick=200,
                 thorough=5000, shards_quick=4, shards_thorough=16,
                 essential=(), essential_min=0.02, doc="", exhaustive=False,
                 stdout="sink", max_shrink_s=120, shrink=True):
        self.name = name
        self.check = check
        self.strategy = strategy      # callable -> hypothesis strategy (lazy)
        self.enumerate = enumerate    # callable(tier) -> iterable of cases
        self.quick = quick
        self.thorough = thorough
        self.shards_quick = shards_quick
        self.shards_thorough = shards_thorough
        self.essential = tuple(essential)
        self.essential_min = essential_min
        self.doc = doc
        self.exhaustive = exhaustive
        self.stdout = stdout
        self.max_shrink_s = max_shrink_s
        self.shrink = shrink          # False for units whose cases cost a sub-process each: report the first failure as found


def derive_seed(*parts):
    h = hashlib.sha256(("|".join(str(p) for p in parts)).encode()).digest()
    return int.from_bytes(h[:8], "big")


def case_hash(case):
    return hashlib.sha256(tagjson.dumps(case, sort_keys=False).encode()).hexdigest()[:24]


def brief(case, limit=1500):
    s = tagjson.dumps(case)
    if len(s) <= limit:
        return tagjson.enc(case)
    return {"truncated_tagjson": s[:limit] + "...", "length": len(s)}


class _Sink(io.TextIOBase):
    def write(self, s):
        return len(s)


class _Acc:
    """Per-(unit, shard) accumulator, merged in the parent."""

    def __init__(self):
        self.evals = 0
        self.nontrivial = set()
        self.labels = Counter()
        self.gray = 0
        self.samples = []
        self.extra = Counter()

    def note(self, case, info):
        self.evals += 1
        if info is None:
            info = {}
        nt = info.get("nontrivial", False)
        for lab in info.get("labels", ()):
            self.labels[lab] += 1
        if info.get("gray"):
            self.gray += 1
        for k, v in info.get("count", {}).items():
            self.extra[k] += v
        if nt:
            h = case_hash(case)
            if h not in self.nontrivial:
                self.nontrivial.add(h)
                if len(self.samples) < 3:
                    self.samples.append(brief(case))

    def export(self):
        return {
            "evals": self.evals,
            "nontrivial": sorted(self.nontrivial),
            "labels": dict(self.labels),
            "gray": self.gray,
            "samples": self.samples,
            "extra": dict(self.extra),
        }


def _load_module(prop):
    import importlib
    if ROOT not in sys.path:
        sys.path.insert(0, ROOT)
    return importlib.import_module("props." + prop)


def ensure_repo_on_path():
    if sys.path[0] != REPO:
        sys.path.insert(0, REPO)
    import conda_content_trust
    f = os.path.realpath(conda_content_trust.__file__)
    if not f.startswith(os.path.realpath(REPO) + os.sep):
        raise Inconclusive("conda_content_trust imported from %s, not %s" % (f, REPO))


def _run_task(task):
    """Worker: run one (unit, shard).  Returns a picklable result dict."""
    prop, unit_name, tier, seed, shard, nshards, n = task
    t0 = time.time()
    res = {"unit": unit_name, "shard": shard, "status": "ok"}
    real_stdout = sys.stdout
    try:
        ensure_repo_on_path()
        mod = _load_module(prop)
        unit = next(u for u in mod.UNITS if u.name == unit_name)
        acc = _Acc()
        if unit.stdout == "sink":
            sys.stdout = _Sink()
        state = {"case": None, "viol": None}

        def body(case):
            state["case"] = case
            try:
                info = unit.check(case)
            except Violation as v:
                state["viol"] = v
                state["viol_case"] = case
                raise
            acc.note(case, info)

        if unit.enumerate is not None:
            for i, case in enumerate(unit.enumerate(tier)):
                if i % nshards != shard:
                    continue
                try:
                    body(case)
                except Violation as v:
                    res.update(status="violation", case=tagjson.enc(case), msg=v.msg,
                               bucket=v.bucket)
                    break
        else:
            import hypothesis
            from hypothesis import HealthCheck, Phase, settings
            s = settings(
                max_examples=n, database=None, deadline=None, derandomize=False,
                report_multiple_bugs=False, print_blob=False,
                suppress_health_check=[HealthCheck.too_slow, HealthCheck.data_too_large,
                                       HealthCheck.large_base_example],
                phases=[Phase.generate, Phase.shrink] if unit.shrink else [Phase.generate],
            )
            strat = unit.strategy()
            test = hypothesis.seed(derive_seed(seed, prop, unit_name, shard))(
                s(hypothesis.given(strat)(body)))
            try:
                test()
            except Violation as v:
                res.update(status="violation", case=tagjson.enc(state["case"]),
                           msg=v.msg, bucket=v.bucket)
            except hypothesis.errors.Flaky as e:
                # The oracle is a pure function of the case, so a failure that does not reproduce when the
                # same case is run again means the code under test answered differently the second time:
                # its verdict depended on earlier calls.  The recorded violation was really observed.
                v = state["viol"]
                if v is not None:
                    res.update(status="violation", case=tagjson.enc(state.get("viol_case", state["case"])),
                               msg=v.msg + "  [the same case gave a different outcome when run again in the "
                               "same process: the verdict depends on earlier calls]", bucket=v.bucket)
                else:
                    res.update(status="error", msg="flaky without a recorded violation: %s" % e)
            except hypothesis.errors.FailedHealthCheck as e:
                res.update(status="inconclusive", msg="health check: %s" % e)
            except hypothesis.errors.Unsatisfiable as e:
                res.update(status="inconclusive", msg="unsatisfiable: %s" % e)
        res["acc"] = acc.export()
    except Inconclusive as e:
        res.update(status="inconclusive", msg=str(e))
    except BaseException as e:  # harness error, never a violation
        res.update(status="error", msg="".join(
            traceback.format_exception(type(e), e, e.__traceback__))[-4000:])
        try:
            res["case"] = tagjson.enc(state["case"])
        except Exception:
            pass
    finally:
        sys.stdout = real_stdout
    res["wall_s"] = time.time() - t0
    return res


def load_known_findings():
    path = os.path.join(ROOT, "known_findings.txt")
    out = []
    if os.path.exists(path):
        for line in open(path, encoding="utf-8"):
            line = line.strip()
            if line.startswith("finding:"):
                # finding: property=C13 bucket=<bucket text> :: <what fails>
                body = line[len("finding:"):].strip()
                meta, _, what = body.partition("::")
                kv = dict(p.split("=", 1) for p in meta.split() if "=" in p)
                out.append({"property": kv.get("property"), "bucket": kv.get("bucket"),
                            "what": what.strip()})
    return out


def run_replays(mod, prop):
    """Committed regression inputs: replay/<prop>/*.json -> (n, failures)."""
    d = os.path.join(ROOT, "replay", prop)
    n, fails = 0, []
    if not os.path.isdir(d):
        return n, fails
    units = {u.name: u for u in mod.UNITS}
    for fn in sorted(os.listdir(d)):
        if not fn.endswith(".json"):
            continue
        doc = json.load(open(os.path.join(d, fn), encoding="utf-8"))
        unit = units.get(doc["unit"])
        if unit is None:
            raise Inconclusive("replay file %s names unknown unit %s" % (fn, doc["unit"]))
        n += 1
        try:
            _quiet(unit, tagjson.dec(doc["case"]))
        except Violation as v:
            fails.append((os.path.join(d, fn), v))
    return n, fails


def _quiet(unit, case):
    real = sys.stdout
    if unit.stdout == "sink":
        sys.stdout = _Sink()
    try:
        return unit.check(case)
    finally:
        sys.stdout = real


def write_replay(prop, unit, case_enc, msg, bucket, seed, tier):
    d = os.path.join(OUT, "out", "violations")
    os.makedirs(d, exist_ok=True)
    h = hashlib.sha256(json.dumps(case_enc, sort_keys=True).encode()).hexdigest()[:12]
    path = os.path.join(d, "%s-%s-%s.json" % (prop, unit, h))
    with open(path, "w", encoding="utf-8") as f:
        json.dump({"property": prop, "unit": unit, "seed": seed, "tier": tier,
                   "bucket": bucket, "observed": msg, "case": case_enc}, f, indent=1)
    return path


def run(prop, tier="quick", seed=1, replay=None, only_unit=None, scale=1.0):
    t0 = time.time()
    ensure_repo_on_path()
    mod = _load_module(prop)
    if replay:
        doc = json.load(open(replay, encoding="utf-8"))
        unit = next(u for u in mod.UNITS if u.name == doc["unit"])
        try:
            _quiet(unit, tagjson.dec(doc["case"]))
        except Violation as v:
            print("replay: %s" % v.msg)
            print("VIOLATION property=%s replay=%s" % (prop, replay))
            return 1
        print("replay: property held on %s" % replay)
        return 0

    violations = []   # (path, msg, bucket)
    known = [k for k in load_known_findings() if k["property"] == prop]
    # 1. committed regression inputs
    try:
        nrep, rep_fail = run_replays(mod, prop)
    except Inconclusive as e:
        print("INCONCLUSIVE %s: %s" % (prop, e))
        return 2
    for path, v in rep_fail:
        violations.append((path, v.msg, v.bucket))

    # 2. generated search
    tasks = []
    for u in mod.UNITS:
        if only_unit and u.name != only_unit:
            continue
        nshards = u.shards_quick if tier == "quick" else u.shards_thorough
        total = u.quick if tier == "quick" else u.thorough
        total = max(1, int(total * scale))
        nshards = max(1, min(nshards, total))
        if u.enumerate is None:
            # Hypothesis starts every run with the simplest example: shards of one or two cases would all test the same thing
            nshards = max(1, min(nshards, total // 6))
        per = max(1, total // nshards)
        for sh in range(nshards):
            tasks.append((prop, u.name, tier, seed, sh, nshards, per))
    if len(tasks) == 1 or NPROC == 1:
        results = [_run_task(t) for t in tasks]
    else:
        ctx = multiprocessing.get_context("fork")
        with ctx.Pool(min(NPROC, len(tasks))) as pool:
            results = pool.map(_run_task, tasks, chunksize=1)

    per_unit = {}
    errors, inconclusive = [], []
    for r in results:
        pu = per_unit.setdefault(r["unit"], {"evals": 0, "nontrivial": set(),
                                             "labels": Counter(), "gray": 0,
                                             "samples": [], "extra": Counter(),
                                             "wall_s": 0.0})
        a = r.get("acc")
        if a:
            pu["evals"] += a["evals"]
            pu["nontrivial"].update(a["nontrivial"])
            pu["labels"].update(a["labels"])
            pu["gray"] += a["gray"]
            pu["extra"].update(a["extra"])
            if len(pu["samples"]) < 2:
                pu["samples"].extend(a["samples"][: 2 - len(pu["samples"])])
        pu["wall_s"] = max(pu["wall_s"], r["wall_s"])
        if r["status"] == "violation":
            path = write_replay(prop, r["unit"], r["case"], r["msg"], r["bucket"], seed, tier)
            violations.append((path, r["msg"], r["bucket"]))
        elif r["status"] == "error":
            errors.append(r)
        elif r["status"] == "inconclusive":
            inconclusive.append(r)

    # essential label classes must actually be generated
    units = {u.name: u for u in mod.UNITS}
    for name, pu in per_unit.items():
        u = units[name]
        if pu["evals"] >= 100 and not any(r["status"] == "violation" and r["unit"] == name
                                          for r in results):
            for lab in u.essential:
                if pu["labels"].get(lab, 0) < u.essential_min * pu["evals"]:
                    inconclusive.append({"unit": name, "msg":
                                         "essential class %r under %.0f%% of cases (%d/%d)"
                                         % (lab, 100 * u.essential_min,
                                            pu["labels"].get(lab, 0), pu["evals"])})

    # 3. classify violations against known findings
    unlisted = []
    printed_known = set()
    for path, msg, bucket in violations:
        k = next((k for k in known if k["bucket"] and k["bucket"] == bucket), None)
        if k:
            if k["bucket"] not in printed_known:
                printed_known.add(k["bucket"])
                print("KNOWN-FINDING: property=%s %s" % (prop, k["what"]))
        else:
            unlisted.append((path, msg, bucket))

    evals = sum(pu["evals"] for pu in per_unit.values()) + nrep
    allnt = set()
    for name, pu in per_unit.items():
        allnt.update(name + ":" + h for h in pu["nontrivial"])
    samples = []
    for name, pu in per_unit.items():
        for s in pu["samples"]:
            samples.append({"unit": name, "case": s})
    if not samples:
        samples = [{"note": "no non-trivial sample recorded"}]
    cov = {
        "evaluations": evals,
        "distinct_nontrivial": len(allnt),
        "rule": mod.RULE,
        "samples": samples[:8],
        "replayed_regression_inputs": nrep,
        "gray_zone_cases": sum(pu["gray"] for pu in per_unit.values()),
        "per_unit": {
            name: {"evaluations": pu["evals"], "distinct_nontrivial": len(pu["nontrivial"]),
                   "labels": dict(sorted(pu["labels"].items())),
                   "counters": dict(pu["extra"]), "wall_s": round(pu["wall_s"], 2),
                   "exhaustive": units[name].exhaustive, "doc": units[name].doc}
            for name, pu in per_unit.items()},
        "exhaustive": False,
        "exhaustive_subdomains": [n for n in per_unit if units[n].exhaustive],
    }
    ev = {
        "property_id": prop, "tier": tier, "seed": int(seed), "level": mod.LEVEL,
        "coverage": cov, "assumptions": list(getattr(mod, "ASSUMPTIONS", [])),
        "wall_s": round(time.time() - t0, 2), "violations": len(unlisted),
        "known_findings_hit": sorted(printed_known),
        "inconclusive": [{"unit": r.get("unit"), "msg": r.get("msg")} for r in inconclusive],
    }
    if not only_unit:
        os.makedirs(os.path.join(OUT, "evidence"), exist_ok=True)
        with open(os.path.join(OUT, "evidence", prop + ".json"), "w", encoding="utf-8") as f:
            json.dump(ev, f, indent=1, ensure_ascii=True)
            f.write("\n")

    print("%s tier=%s seed=%s evaluations=%d distinct_nontrivial=%d wall=%.1fs" % (
        prop, tier, seed, evals, len(allnt), time.time() - t0))
    for name, pu in per_unit.items():
        print("  unit %-28s evals=%-7d nontrivial=%-7d labels=%s" % (
            name, pu["evals"], len(pu["nontrivial"]),
            json.dumps(dict(pu["labels"].most_common(14)))))
    if unlisted:
        for path, msg, bucket in unlisted:
            print("  violation: %s" % msg[:600])
            print("VIOLATION property=%s replay=%s" % (prop, path))
        return 1
    if errors:
        for r in errors:
            print("HARNESS-ERROR unit=%s shard=%s\n%s" % (r["unit"], r["shard"], r["msg"]))
        return 2
    if inconclusive:
        for r in inconclusive:
            print("INCONCLUSIVE unit=%s: %s" % (r.get("unit"), r.get("msg")))
        return 2
    return 0
