"""Key pool and the fast Ed25519 oracle.

Signing/verification here call `cryptography`'s raw Ed25519 primitive directly (never through the
repository).  C19 cross-checks this primitive against the pure-Python RFC 8032 implementation in
ref_ed25519 on every run, so an oracle verdict never rests on repository code.
"""
import hashlib

from cryptography.exceptions import InvalidSignature
from cryptography.hazmat.primitives import serialization as _ser
from cryptography.hazmat.primitives.asymmetric.ed25519 import Ed25519PrivateKey, Ed25519PublicKey
from hypothesis import strategies as st

from . import ref_ed25519

_priv = {}
_pub = {}


def _pk(seed):
    seed = bytes(seed)
    k = _priv.get(seed)
    if k is None:
        k = Ed25519PrivateKey.from_private_bytes(seed)
        if len(_priv) < 8192:
            _priv[seed] = k
    return k


def pub_bytes(seed):
    seed = bytes(seed)
    r = _pub.get(seed)
    if r is None:
        r = _pk(seed).public_key().public_bytes(_ser.Encoding.Raw, _ser.PublicFormat.Raw)
        if len(_pub) < 8192:
            _pub[seed] = r
    return r


def pub_hex(seed):
    return pub_bytes(seed).hex()


def sign_raw(seed, msg):
    return _pk(seed).sign(bytes(msg))


def sign_ref(seed, msg):
    return ref_ed25519.sign(bytes(seed), bytes(msg))


def make_nonce_signer(nonce):
    def signer(seed, msg):
        return ref_ed25519.sign_with_nonce(bytes(seed), bytes(msg), nonce)
    return signer


def verify_raw(pub_hex_, msg, sig):
    try:
        Ed25519PublicKey.from_public_bytes(bytes.fromhex(pub_hex_)).verify(bytes(sig), bytes(msg))
        return True
    except InvalidSignature:
        return False
    except ValueError:
        return False


def pool_seed(i):
    return hashlib.sha256(b"verif key pool %d" % i).digest()


POOL = [pool_seed(i) for i in range(16)]

# seeds: mostly from the pool (so keys collide across roles/cases on purpose), sometimes arbitrary
seeds = st.one_of(st.sampled_from(POOL), st.sampled_from(POOL[:6]), st.binary(min_size=32, max_size=32))


def seed_lists(min_size=1, max_size=6):
    return st.lists(seeds, min_size=min_size, max_size=max_size, unique=True)


# "keys nobody holds": arbitrary 32-byte strings as public keys
ghost_keys = st.binary(min_size=32, max_size=32).map(lambda b: b.hex())


def derived_seeds(tag, n):
    """n distinct 32-byte seeds computed from one small integer (Hypothesis caps the entropy of one example at 8 KiB, so crowds
    of hundreds or thousands of keys are derived, not drawn)"""
    return [hashlib.sha256(b"verif crowd %d %d" % (tag, i)).digest() for i in range(n)]


def derived_ghosts(tag, n):
    """n distinct 64-hex strings nobody holds the private key for (as far as the harness is concerned)"""
    return [hashlib.sha256(b"verif ghost %d %d" % (tag, i)).hexdigest() for i in range(n)]
