"""C10 - OpenPGP-wrapped signatures follow RFC 4880 v4 and interoperate with GnuPG."""
import copy
import hashlib

import cryptography.exceptions
from hypothesis import strategies as st

from conda_content_trust import authentication as A, common as C

from vlib import cfgunit, configrun, gen_envelope as GE, gen_json as G, gen_metadata as GM, gpgchild, keys, ref_grammar as g, ref_openpgp, ref_verify as RV
from vlib.ref_canon import canon
from vlib import cfgunit as _cfgunit
from vlib.runner import Inconclusive, Unit, Violation
from vlib import threaded as _threaded
from vlib import interfere as _interfere, interrupt as _interrupt

PROPERTY = "C10"
LEVEL = "exploration"
RULE = ("Part A (no GnuPG): payload bytes (0-4 KiB; 1 MiB in the thorough tier) x hashed-header bytes of length 1-300 and "
        "the boundary lengths 255, 256, 65535, 65536, 70000 x key seeds; entry built by the reference signer "
        "(SHA-256(payload || headers || 04 ff || be32(len headers)), RFC 8032); then one corruption from {none, bit flip in "
        "payload / header / signature / key, header truncated / extended by one byte, header extended by bytes after a "
        "self-described v4 hashed area, trailer with 16-bit or little-endian length, 04 ff omitted, SHA-512, signature "
        "over the payload alone, raw-shaped entry, upper-case hex}. Oracle: the reference recomputes validity of the "
        "corrupted entry (a neutral corruption can never be a false alarm): verify_gpg_signature returns <=> valid, "
        "otherwise InvalidSignature (or TypeError/ValueError if the entry is not well formed); verify_signable(gpg=True) "
        "counts the entry <=> valid; each case is preceded, in the same process, by a verification of the uncorrupted "
        "entry (history probe). Part B (real GnuPG 2.2): the library's own sign_root_metadata_via_gpg / "
        "sign_root_metadata_dict_via_gpg / sign_via_gpg / fetch_keyval_from_gpg run in a child process against the gpg "
        "binary through a securesystemslib stand-in, on generated metadata with the repository's two test keys and a "
        "freshly generated key; the produced entries must be filed under the key's raw q, be accepted in OpenPGP mode, "
        "chain through verify_root, survive re-signing after an edit, and be rejected after each corruption. "
        "Non-trivial = a corruption was applied, or the header length is on a boundary, or Part B.")
ASSUMPTIONS = ["securesystemslib 0.13.1 is not installable offline: vlib/gpgshim transcribes gpg's packets; every transcription "
               "is validated against the RFC 4880 reference before the library is blamed",
               "GnuPG 2.2.40, EdDSA (algo 22) / SHA-256 v4 signatures only; no smart-card path"]

TEST_KEY_Q = ["c8bd83b3bfc991face417d97b9c0db011b5d256476b602b92fec92849fc2b36c",
              "a59cea0987ee9046d68d2d011e919eb9278e3f478cca77f5204d65191ff8d7a5"]
TEST_KEY_FPR = ["917adb684e2e9fb5ed4e59909ddd19a1268b62d0", "0a14b126c986f276831c7b04134f35b47db43643"]

CORRUPTIONS = ["none", "none", "flip_payload", "flip_header", "flip_signature", "flip_key", "header_truncated", "header_extended",
               "header_trailing_after_hashed_area", "trailer_16bit", "trailer_le", "no_04ff", "sha512", "payload_only",
               "raw_shape", "upper_hex", "header_swap_bytes", "strip_leading_zero", "strip_leading_zero_padded", "hex_newline", "hex_odd"]
HEADER_LENS = [1, 2, 6, 35, 255, 256, 257, 300, 65535, 65536, 70000]


def _headers(draw):
    kind = draw(st.sampled_from(["gpg-like", "gpg-like", "random", "boundary", "rich", "other-octets"]))
    if kind == "other-octets":
        # GnuPG's layout with other values in the four leading octets (version, signature type, public-key algorithm, hash
        # algorithm: 0x0a = SHA-512, 0x09 = SHA-384 ...): the library hashes them, it does not interpret them
        h = bytearray(ref_openpgp.default_headers(draw(st.binary(min_size=20, max_size=20)).hex(), draw(st.integers(0, 2 ** 32 - 1))))
        i = draw(st.integers(0, 3))
        h[i] = draw(st.sampled_from([[3, 5, 6, 0, 255], [1, 0x10, 0x13, 0x18], [1, 17, 19, 27], [0x0a, 0x09, 0x0b, 0x02, 0x01]][i]))
        return bytes(h)
    if kind == "rich":
        return draw(GE.HEADERS.filter(lambda h: h is not None and len(h) > 40 and h[:4] == bytes([4, 0, 22, 8])))
    if kind == "gpg-like":
        return ref_openpgp.default_headers(draw(st.binary(min_size=20, max_size=20)).hex(), draw(st.integers(0, 2 ** 32 - 1)))
    if kind == "random":
        return draw(st.binary(min_size=1, max_size=300))
    n = draw(st.sampled_from(HEADER_LENS))
    seed = draw(st.binary(min_size=4, max_size=4))
    return (hashlib.sha256(seed).digest() * (n // 32 + 1))[:n]


@st.composite
def _cases(draw):
    seed = draw(keys.seeds)
    payload = draw(st.one_of(st.binary(max_size=64), st.binary(max_size=4096), st.builds(canon, G.payloads)))
    H = _headers(draw)
    return {"seed": seed.hex(), "payload": payload, "headers": H, "corruption": draw(st.sampled_from(CORRUPTIONS)),
            "pos": draw(st.integers(0, 10 ** 9)), "see_also": draw(st.booleans())}


def _flip(b, pos):
    b = bytearray(b)
    if not b:
        return bytes([1])
    i = pos % (len(b) * 8)
    b[i // 8] ^= 1 << (i % 8)
    return bytes(b)


def _stream(n):
    out = bytearray()
    i = 0
    while len(out) < n:
        out += hashlib.sha256(b"verif payload %d" % i).digest()
        i += 1
    return bytes(out[:n])


def build(case):
    """(entry, key_hex, payload) after the corruption."""
    seed = bytes.fromhex(case["seed"])
    if "payload_len" in case:       # big payloads are named by their length (bytes derived from a hash stream)
        case = dict(case, payload=_stream(case["payload_len"]))
    payload, H, c, pos = case["payload"], case["headers"], case["corruption"], case["pos"]
    pub = keys.pub_hex(seed)
    e = ref_openpgp.entry(seed, payload, headers=H)
    if case["see_also"]:
        e["see_also"] = hashlib.sha1(H).hexdigest()
    if c == "flip_payload":
        payload = _flip(payload, pos)
    elif c == "flip_header":
        e["other_headers"] = _flip(H, pos).hex()
    elif c == "flip_signature":
        e["signature"] = _flip(bytes.fromhex(e["signature"]), pos).hex()
    elif c == "flip_key":
        pub = _flip(bytes.fromhex(pub), pos).hex()
    elif c == "header_truncated":
        e["other_headers"] = H[:-1].hex()
    elif c == "header_extended":
        e["other_headers"] = (H + bytes([pos % 256])).hex()
    elif c == "header_trailing_after_hashed_area":
        # headers that describe themselves as a v4 hashed area, followed by extra bytes (e.g. unhashed subpackets)
        base = ref_openpgp.default_headers()
        e = ref_openpgp.entry(seed, payload, headers=base)
        e["other_headers"] = (base + bytes([0, 10, 9, 16]) + bytes(8))[: len(base) + 1 + pos % 12].hex()
    elif c == "trailer_16bit":
        d = hashlib.sha256(payload + H + b"\x04\xff" + len(H).to_bytes(4, "big")[2:]).digest()
        e["signature"] = keys.sign_raw(seed, d).hex()
    elif c == "trailer_le":
        d = hashlib.sha256(payload + H + b"\x04\xff" + len(H).to_bytes(4, "little")).digest()
        e["signature"] = keys.sign_raw(seed, d).hex()
    elif c == "no_04ff":
        d = hashlib.sha256(payload + H + len(H).to_bytes(4, "big")).digest()
        e["signature"] = keys.sign_raw(seed, d).hex()
    elif c == "sha512":
        d = hashlib.sha512(payload + H + b"\x04\xff" + len(H).to_bytes(4, "big")).digest()
        e["signature"] = keys.sign_raw(seed, d).hex()
    elif c == "payload_only":
        e["signature"] = keys.sign_raw(seed, payload).hex()
    elif c == "raw_shape":
        e = {"signature": e["signature"]}
    elif c == "upper_hex":
        f = ["signature", "other_headers"][pos % 2]
        e[f] = e[f].upper()
    elif c in ("strip_leading_zero", "strip_leading_zero_padded"):
        # a genuine signature whose first octet is 0x00 (nonce chosen so that R starts with a zero byte), with that octet
        # removed the way an MPI encoder strips leading zeros - a structural change of the signature bytes
        e = ref_openpgp.entry(seed, payload, headers=H, signer=keys.make_nonce_signer([124, 569, 636][pos % 3]))
        if case["see_also"]:
            e["see_also"] = hashlib.sha1(H).hexdigest()
        assert e["signature"].startswith("00")
        e["signature"] = e["signature"][2:] + ("00" if c.endswith("padded") else "")
    elif c == "hex_newline":
        f = ["other_headers", "signature", "other_headers"][pos % 3]
        e[f] = e[f] + ["\n", " ", "\r\n", "\t"][(pos // 3) % 4]
    elif c == "hex_odd":
        e["other_headers"] = e["other_headers"] + "0"
    elif c == "header_swap_bytes" and len(H) >= 2:
        i = pos % (len(H) - 1)
        e["other_headers"] = (H[:i] + H[i + 1:i + 2] + H[i:i + 1] + H[i + 2:]).hex()
    return e, pub, payload


def check_primitive(case):
    if "payload_len" in case:
        case = dict(case, payload=_stream(case["payload_len"]))
        del case["payload_len"]
    seed = bytes.fromhex(case["seed"])
    # history probe: the uncorrupted entry is verified first, in the same process
    good = ref_openpgp.entry(seed, case["payload"], headers=case["headers"])
    try:
        A.verify_gpg_signature(copy.deepcopy(good), keys.pub_hex(seed), case["payload"])
    except Exception as e:
        raise Violation("verify_gpg_signature rejects an entry built exactly as RFC 4880 v4 prescribes (header length %d): %s %s"
                        % (len(case["headers"]), type(e).__name__, str(e)[:100]), bucket="valid OpenPGP entry rejected")
    # history: the same bytearray object verified, changed in place, verified again
    ba = bytearray(case["payload"]) + b"!"
    good_ba = ref_openpgp.entry(seed, bytes(ba), headers=case["headers"])
    try:
        A.verify_gpg_signature(copy.deepcopy(good_ba), keys.pub_hex(seed), ba)
    except Exception as e:
        raise Violation("verify_gpg_signature rejects a valid signature over a bytearray payload: %s" % type(e).__name__,
                        bucket="valid OpenPGP entry rejected")
    ba[-1] ^= 1
    try:
        A.verify_gpg_signature(copy.deepcopy(good_ba), keys.pub_hex(seed), ba)
        raise Violation("after the payload bytearray was changed in place, the old signature is still accepted", bucket="accepts invalid OpenPGP entry")
    except cryptography.exceptions.InvalidSignature:
        pass
    e, pub, payload = build(case)
    wf = g.is_gpg_entry(e) and g.is_key(pub)
    valid = wf and ref_openpgp.valid(pub, e, payload)
    try:
        A.verify_gpg_signature(copy.deepcopy(e), pub, payload)
        got = "accept"
    except cryptography.exceptions.InvalidSignature:
        got = "InvalidSignature"
    except (TypeError, ValueError):
        got = "ArgError"
    except Exception as ex:
        raise Violation("verify_gpg_signature raised %s: %s" % (type(ex).__name__, str(ex)[:100]), bucket="internal error")
    want = "accept" if valid else ("InvalidSignature" if wf else "ArgError")
    if got != want:
        raise Violation("verify_gpg_signature: corruption %r (header length %d, payload length %d): expected %s, got %s"
                        % (case["corruption"], len(case["headers"]), len(case["payload"]), want, got),
                        bucket=("accepts invalid" if got == "accept" else "rejects valid" if want == "accept" else "wrong class")
                        + " OpenPGP entry")
    n = len(case["headers"])
    return {"nontrivial": case["corruption"] != "none" or n in HEADER_LENS,
            "labels": ["corruption=" + case["corruption"], "valid" if valid else "invalid",
                       "hdr>=65536" if n >= 65536 else "hdr>=255" if n >= 255 else "hdr<255"]}


# ---- OpenPGP mode of verify_signable is exact ---------------------------------------------------------------------

@st.composite
def _signable_cases(draw):
    c = draw(_cases())
    c["payload"] = draw(G.payloads)        # a JSON payload this time; the signed bytes are its canonical form
    c["junk_first"] = draw(st.booleans())
    return c


def check_signable(case):
    seed = bytes.fromhex(case["seed"])
    B = canon(case["payload"])
    bcase = dict(case, payload=B)
    e, pub, payload_bytes = build(bcase)
    payload = case["payload"]
    if payload_bytes != B:     # corrupted payload bytes: present a different JSON payload instead
        payload = [case["payload"], "changed"]
        e, pub, _ = build(dict(bcase, corruption="none"))
    real_pub = keys.pub_hex(seed)
    # prime with the genuine envelope (history probe), then ask about the corrupted one
    genuine = {"signatures": {real_pub: ref_openpgp.entry(seed, B, headers=case["headers"])}, "signed": case["payload"]}
    o0, _ = RV.outcome(A.verify_signable, genuine, [real_pub], 1, gpg=True)
    if o0 != "accept":
        raise Violation("verify_signable(gpg=True) rejects a reference OpenPGP-mode signature: %s" % o0,
                        bucket="valid OpenPGP entry rejected")
    sigs = {}
    if case["junk_first"]:
        sigs["junk"] = 5
    key_in_map = pub if g.is_key(pub) else real_pub
    sigs[key_in_map] = e
    env = {"signatures": sigs, "signed": payload}
    # history probe across modes: the very same envelope is first examined in raw mode (where an OpenPGP-shaped entry
    # holding a raw-valid signature may legitimately count), then in OpenPGP mode
    RV.outcome(A.verify_signable, copy.deepcopy(env), [key_in_map], 1, gpg=False)
    RV.outcome(A.verify_delegation, "x", copy.deepcopy(env), GM.wrap(GM.signed_part("key_mgr", {"x": {"pubkeys": [key_in_map], "threshold": 1}},
                                                                            version=1)), gpg=False)
    expect = RV.signable(env, [key_in_map], 1, True)
    o, exc = RV.outcome(A.verify_signable, copy.deepcopy(env), [key_in_map], 1, gpg=True)
    bad = RV.mismatch(expect, o)
    if bad:
        raise Violation("verify_signable(gpg=True) with corruption %r: %s" % (case["corruption"], bad),
                        bucket=("accepts invalid" if o == "accept" else "rejects valid") + " OpenPGP entry (verify_signable)")
    return {"nontrivial": case["corruption"] != "none", "labels": ["corruption=" + case["corruption"], "expect=" + expect.kind]}


# ---- Part B: real GnuPG ---------------------------------------------------------------------------------------------

@st.composite
def _gpg_cases(draw):
    jobs = []
    for _ in range(draw(st.integers(2, 4))):
        _ = draw(st.booleans())
        payload = draw(st.one_of(GM.signed_parts([keys.pub_hex(keys.POOL[0])]), G.payloads, G.package_record))
        pre = draw(st.lists(st.tuples(G.strings, st.sampled_from([{"signature": "ab" * 64}, 7, "x"])), max_size=2))
        signers = draw(st.lists(st.integers(0, 1 if not _ else 2), min_size=1, max_size=3))
        # stale entries already filed under a signer's own raw key (e.g. from signing an earlier draft)
        stale = draw(st.sampled_from([None, None, {"signature": "ab" * 64},
                                      {"other_headers": "04001608", "signature": "cd" * 64},
                                      {"other_headers": "04001608", "signature": "cd" * 64, "see_also": TEST_KEY_FPR[0]}]))
        if stale is not None and signers[0] < 2:
            pre.append((TEST_KEY_Q[signers[0]], stale))
        jobs.append({"payload": payload, "pre": [list(p) for p in pre], "signers": signers,
                     "via": draw(st.sampled_from(["file", "file", "dict"]))})
    return {"jobs": jobs, "fresh": draw(st.sampled_from([0, 1])), "chain_version": draw(st.integers(1, 1000)),
            "data": draw(st.binary(max_size=200)), "pos": draw(st.integers(0, 10 ** 9))}


def check_gnupg(case):
    if "produced" in case:
        out = case["produced"]
    else:
        jobs = []
        for j in case["jobs"]:
            env = GM.wrap(copy.deepcopy(j["payload"]), {k: v for k, v in j["pre"]})
            jobs.append({"envelope": env, "signers": j["signers"], "via": j["via"]})
        jobs.append({"via": "sign_via_gpg", "data": case["data"], "signers": [0, 1], "include_fingerprint": True, "envelope": None})
        # a two-link root chain: v signed nothing, v+1 signed by both test keys; built in the parent after q is known
        out = gpgchild.run(jobs, fresh_keys=case["fresh"])
        if "child_failed" in out:
            raise Inconclusive("gpg child process failed: %s" % out["stderr"][-400:])
        case["produced"] = out
    ks = out["keys"]
    n_entries = 0
    # 0. the transcription layer itself: sign_via_gpg hands back what the stand-in parsed from gpg's packets, nearly
    #    untouched.  If that does not verify under the RFC 4880 reference the stand-in (or gpg) is off and nothing
    #    below may be blamed on the library.
    raw = out["results"][-1]
    if "error" not in raw:
        for i, ent in zip(raw["signers"], raw["entries"]):
            if not (g.is_gpg_entry(ent) and ref_openpgp.valid(ks[i]["q"], ent, case["data"])):
                raise Inconclusive("stand-in transcription of gpg output does not verify under the RFC 4880 reference")
    for j, res in zip(case["jobs"], out["results"]):
        if "error" in res:
            raise Violation("the library's GPG signing path failed on well-formed input with a known key: %s" % res["error"],
                            bucket="gpg path raises")
        env = res["envelope"]
        B = canon(j["payload"])
        if canon(env["signed"]) != B:
            raise Violation("GPG signing changed the signed portion", bucket="gpg path changes payload")
        if "file_bytes" in res and res["file_bytes"] != canon(env):
            raise Violation("file written by sign_root_metadata_via_gpg is not canonical", bucket="gpg path file not canonical")
        own = {ks[i]["q"] for i in res["signers"]}
        for k, v in {k: v for k, v in j["pre"]}.items():       # (a later pair with the same key replaces an earlier one)
            if k in own:
                continue        # the signer's own (stale) entry must be replaced, see below
            if k not in env["signatures"] or env["signatures"][k] != v:
                raise Violation("GPG signing removed or altered a pre-existing signature entry", bucket="gpg path touches entries")
        qs = []
        for i in res["signers"]:
            q = ks[i]["q"]
            qs.append(q)
            ent = env["signatures"].get(q)
            if ent is None:
                raise Violation("no entry filed under the signer's raw public key q after GPG signing", bucket="gpg entry not under q")
            if not g.is_gpg_entry(ent) or not ref_openpgp.valid(q, ent, B):
                raise Violation("after signing through the library's GPG path the entry filed under the signer's key q is "
                                "not a valid OpenPGP-mode signature over the metadata (pre-existing entries: %r)"
                                % ([sorted(v) if isinstance(v, dict) else v for k, v in j["pre"] if k in own],),
                                bucket="gpg path files an invalid entry")
            n_entries += 1
            try:
                A.verify_gpg_signature(copy.deepcopy(ent), q, B)
            except Exception as e:
                raise Violation("verify_gpg_signature rejects a signature made by GnuPG and transcribed by the library: %s"
                                % type(e).__name__, bucket="GnuPG signature rejected")
            # corruptions of a real signature
            for what, (e2, q2, B2) in {
                "payload": (ent, q, _flip(B, case["pos"])),
                "headers": (dict(ent, other_headers=_flip(bytes.fromhex(ent["other_headers"]), case["pos"]).hex()), q, B),
                "signature": (dict(ent, signature=_flip(bytes.fromhex(ent["signature"]), case["pos"]).hex()), q, B),
                "key": (ent, _flip(bytes.fromhex(q), case["pos"]).hex(), B),
                "headers+1": (dict(ent, other_headers=ent["other_headers"] + "00"), q, B),
            }.items():
                if ref_openpgp.valid(q2, e2, B2):
                    continue
                try:
                    A.verify_gpg_signature(copy.deepcopy(e2), q2, B2)
                    raise Violation("a GnuPG signature is still accepted after corrupting the %s" % what,
                                    bucket="accepts corrupted GnuPG signature")
                except cryptography.exceptions.InvalidSignature:
                    pass
        distinct = sorted(set(qs))
        o, exc = RV.outcome(A.verify_signable, copy.deepcopy(env), distinct, len(distinct), gpg=True)
        if o != "accept":
            raise Violation("verify_signable(gpg=True, threshold=%d) rejects metadata signed through the library's GPG path: %s"
                            % (len(distinct), o), bucket="GnuPG signature rejected")
    # sign_via_gpg on raw bytes
    res = out["results"][-1]
    if "error" in res:
        raise Violation("sign_via_gpg failed: %s" % res["error"], bucket="gpg path raises")
    for i, ent in zip(res["signers"], res["entries"]):
        if not g.is_gpg_entry(ent) or ent.get("see_also") != ks[i]["fingerprint"]:
            raise Violation("sign_via_gpg(include_fingerprint=True) returned a malformed entry: %r" % (sorted(ent),),
                            bucket="sign_via_gpg entry shape")
        if not ref_openpgp.valid(ks[i]["q"], ent, case["data"]):
            raise Inconclusive("stand-in transcription does not verify under the reference")
        A.verify_gpg_signature(ent, ks[i]["q"], case["data"])
    for k in ks:
        if k["q"] != k["q_plain"] or not g.is_key(k["q"]):
            raise Violation("fetch_keyval_from_gpg gives different / malformed key values for two spellings of a fingerprint",
                            bucket="fetch_keyval")
    return {"nontrivial": True, "labels": ["fresh-key" if case["fresh"] else "test-keys"],
            "count": {"gnupg_signatures": n_entries}}


def check_gnupg_chain(case):
    """v -> v+1 -> v+2 root chain signed by real GnuPG keys through the library's file path."""
    v = case["version"]
    if "produced" in case:
        out = case["produced"]
    else:
        first = gpgchild.run([], fresh_keys=0)
        if "child_failed" in first:
            raise Inconclusive("gpg child failed: %s" % first["stderr"][-300:])
        q = [k["q"] for k in first["keys"]]
        plans = [([q[0]], 1, [0]), ([q[0], q[1]], case["thr"], [0, 1]), ([q[1]], 1, [0, 1])]
        jobs = []
        for n, (ks_, thr, signers) in enumerate(plans):
            md = GM.signed_part("root", {"root": {"pubkeys": ks_, "threshold": thr}, "key_mgr": {"pubkeys": q[:1], "threshold": 1}},
                                version=v + n)
            jobs.append({"envelope": GM.wrap(md), "signers": signers, "via": "file"})
        out = gpgchild.run(jobs)
        if "child_failed" in out:
            raise Inconclusive("gpg child failed: %s" % out["stderr"][-300:])
        case["produced"] = out
    envs = []
    for res in out["results"]:
        if "error" in res:
            raise Violation("GPG signing path failed: %s" % res["error"], bucket="gpg path raises")
        envs.append(res["envelope"])
    for a, b in ((0, 1), (1, 2)):
        expect = RV.root_update(envs[a], envs[b])
        if expect.kind != "accept":
            raise Inconclusive("reference does not accept the GnuPG-signed chain link: %r" % expect)
        o, exc = RV.outcome(A.verify_root, envs[a], envs[b])
        if o != "accept":
            raise Violation("verify_root rejects a root chain link signed by GnuPG through the library's own path: %s %s"
                            % (o, str(exc)[:100]), bucket="GnuPG chain rejected")
    o, _ = RV.outcome(A.verify_root, envs[0], envs[2])
    if o == "accept":
        raise Violation("verify_root accepts a version-skipping GnuPG-signed root", bucket="GnuPG chain skip accepted")
    return {"nontrivial": True, "labels": ["thr=%d" % case["thr"]]}


def enum_big(tier):
    for n in ([65535, 65536, 70000] + ([2 ** 20] if tier == "thorough" else [])):
        for c in ("none", "flip_header", "header_truncated", "trailer_16bit"):
            yield {"seed": keys.POOL[3].hex(), "payload": b"x" * (n % 5000), "headers": (hashlib.sha256(b"h").digest() * (n // 32 + 1))[:n],
                   "corruption": c, "pos": n * 7 + 1, "see_also": False}


def enum_big_payloads(tier):
    """payload lengths at and around the sizes buffers, blocks and chunks have: 2**k - 1, 2**k, 2**k + 1 and small multiples"""
    lens = set()
    for k in range(6, 21 if tier == "quick" else 24):
        lens.update((2 ** k - 1, 2 ** k, 2 ** k + 1))
    lens.update((3 * 65536, 5 * 65536 - 1, 10 ** 6, 55, 56, 119, 120))       # SHA-256 padding boundaries too
    H = ref_openpgp.default_headers()
    for n in sorted(lens):
        for c in ("none", "flip_payload"):
            yield {"seed": keys.POOL[5].hex(), "payload_len": n, "headers": H, "corruption": c, "pos": n * 8 - 1, "see_also": False}


def _interrupted_sweep_cases():
    from props import C12
    return C12._sweep_cases().map(lambda c: dict(c, entry='verify_signable', kind=c["kind"] if c["kind"] in ['invalid', 'valid'] else 'invalid', gpg=True))


def check_interrupted_sweep(case):
    from props import C12
    return C12.check_fault_sweep(case)


@st.composite
def _config_cases(draw):
    calls = []
    for _ in range(draw(st.integers(3, 5))):
        c = draw(GE.envelopes(gpg=True))
        calls.append(["verify_signable", GE.to_envelope(c), c["authorized"], c["threshold"], True])
    cfg = draw(configrun.configs)
    cfg["stdout"] = draw(st.sampled_from([None, "closed", "broken"]))
    return {"calls": calls, "config": cfg}


def check_config(case):
    verdicts, labels, count = cfgunit.config_probe(case["calls"], "sound", case["config"])
    return {"nontrivial": True, "labels": labels, "count": count}


UNITS = [
    Unit("config", check_config, strategy=_config_cases, quick=24, thorough=400, shards_quick=4, shrink=False,
         doc="OpenPGP-mode envelopes in fresh interpreters (closed / broken stdout, -O, warnings, logging, environment variables): "
             "never counted without a valid OpenPGP-mode signature by an authorized key"),
    Unit("interrupted_sweep", check_interrupted_sweep, strategy=_interrupted_sweep_cases, quick=18, thorough=500, shards_quick=3,
         doc="every line event and every C-level call of one verify_signable interrupted once on a fresh envelope, each followed by a normal retry of the same envelope"),
    Unit("primitive", check_primitive, essential_min=0.01, strategy=_cases, quick=1500, thorough=60000,
         essential=["corruption=none", "corruption=flip_header", "corruption=trailer_16bit", "corruption=header_truncated",
                    "hdr>=255"], doc="verify_gpg_signature returns <=> reference says valid, for corrupted reference entries"),
    Unit("big_payloads", check_primitive, enumerate=enum_big_payloads, exhaustive=True, shards_quick=8,
         doc="payloads of 2**k - 1, 2**k, 2**k + 1 bytes (k = 6..20, thorough ..23) and small multiples of 64 KiB: genuine signature accepted, one flipped bit rejected"),
    Unit("big_headers", check_primitive, enumerate=enum_big, exhaustive=True, shards_quick=4,
         doc="header lengths 65535 / 65536 / 70000 (the 32-bit length field) x corruptions"),
    Unit("signable", check_signable, strategy=_signable_cases, quick=800, thorough=30000,
         doc="verify_signable(gpg=True) counts an entry <=> it is a valid OpenPGP-mode signature"),
    Unit("gnupg", check_gnupg, shrink=False, strategy=_gpg_cases, quick=12, thorough=300, shards_quick=4,
         doc="real gpg binary through the library's own signing path: accepted, filed under q, corruptions rejected"),
    Unit("gnupg_chain", check_gnupg_chain, enumerate=lambda tier: [
        {"version": v, "thr": t} for v in ([1, 41, 10 ** 6] + ([2, 3, 2 ** 40] if tier == "thorough" else [])) for t in (1, 2)],
        shards_quick=6,
        doc="three-link root chain signed by GnuPG keys verifies link by link and not across a skipped version"),
    _cfgunit.unit_under_config(PROPERTY, 'primitive', exclude=()),
    _cfgunit.unit_under_config(PROPERTY, 'signable', exclude=()),
    _interfere.unit_after(PROPERTY, 'primitive', quick=150, thorough=6000),
    _interrupt.unit_interrupted(PROPERTY, 'primitive', quick=18, thorough=450, max_points=150),
    _threaded.unit_threads(PROPERTY),
]
