"""Related inputs for history probes: after a call on X, the next call is made on something that
shares identity, hash/equality or signature material with X but differs as a JSON value.

These are the inputs on which a result cache keyed too coarsely (by object identity, by Python
equality where 1 == True == 1.0, by signature bytes, by (type, version, timestamp) ...) gives a
stale answer, while a stateless implementation cannot tell them from fresh inputs.
"""
import copy


def inplace_mutate(payload):
    """Strictly change a dict/list payload IN PLACE (same object identity). Returns True if done."""
    if type(payload) is dict:
        k = "\u0000verif-probe"
        while k in payload:
            k += "x"
        payload[k] = [None]
        return True
    if type(payload) is list:
        payload.append({"verif-probe": 0})
        return True
    return False


def inplace_mutate_nested(payload):
    """Strictly change the first nested container in place (the top-level object keeps its identity
    AND its own items); returns True if done."""
    stack = [payload]
    while stack:
        x = stack.pop()
        children = list(x.values()) if type(x) is dict else list(x) if type(x) in (list, tuple) else []
        for c in children:
            if type(c) is dict:
                c["\u0000verif-probe"] = 1
                return True
            if type(c) is list:
                c.append("verif-probe")
                return True
        stack.extend(c for c in children if type(c) in (dict, list, tuple))
    return False


def _eq_alt(x):
    if x is True:
        return 1
    if x is False:
        return 0
    if type(x) is int and x in (0, 1):
        return bool(x)
    if type(x) is int and abs(x) < 2 ** 53:
        return float(x)
    if type(x) is float and x == x and abs(x) < 2 ** 53 and x == int(x):
        return int(x)
    return None


def eq_retype(payload):
    """A deep copy in which the first bool / small int / integral float leaf is replaced by a value
    that is == and hash-equal in Python but a different JSON value (1 -> True, 2 -> 2.0, ...).
    None if the payload has no such leaf."""
    done = [False]

    def walk(x):
        if done[0]:
            return copy.deepcopy(x)
        if type(x) is dict:
            return {k: walk(v) for k, v in x.items()}
        if type(x) is list:
            return [walk(v) for v in x]
        a = _eq_alt(x)
        if a is not None:
            done[0] = True
            return a
        return x

    out = walk(payload)
    return out if done[0] else None


def field_change(payload):
    """A deep copy that differs strictly from payload (new object)."""
    p = copy.deepcopy(payload)
    if not inplace_mutate(p):
        p = [p]
    return p


# ---- containers that are instances of dict / list / tuple SUBCLASSES (json serializes them like the base types) ------------------

import collections


class ListSub(list):
    pass


class DictSub(dict):
    pass


PairTuple = collections.namedtuple("PairTuple", ["first", "rest"])


def subclassed(payload, variant=0):
    """Deep copy of a JSON-like payload whose NESTED dicts / lists / tuples are instances of subclasses (OrderedDict, defaultdict,
    a dict subclass, a list subclass, a namedtuple); the top-level object keeps its exact type.  Returns (copy, n_converted)."""
    n = [0]

    def conv(x, top):
        if isinstance(x, dict):
            items = [(k, conv(v, False)) for k, v in x.items()]
            if top:
                return dict(items)
            n[0] += 1
            kind = (variant + n[0]) % 3
            if kind == 0:
                return collections.OrderedDict(items)
            if kind == 1:
                d = collections.defaultdict(list)
                d.update(items)
                return d
            return DictSub(items)
        if isinstance(x, list):
            items = [conv(v, False) for v in x]
            if top:
                return items
            n[0] += 1
            return ListSub(items)
        if isinstance(x, tuple):
            items = [conv(v, False) for v in x]
            if top or len(items) < 1:
                return tuple(items)
            n[0] += 1
            return PairTuple(items[0], ListSub(items[1:]))
        return copy.deepcopy(x)
    return conv(payload, True), n[0]


def plain(x):
    """structure with every container reduced to its base type (for comparisons)"""
    if isinstance(x, dict):
        return {"$dict": [[plain(k), plain(v)] for k, v in x.items()]}
    if isinstance(x, (list, tuple)):
        return {"$seq": type(x).__name__ if type(x) in (list, tuple) else ("list" if isinstance(x, list) else "tuple"),
                "items": [plain(v) for v in x]}
    return repr(x)


def mutate_all_nested(x, top=True):
    """Change every nested mutable container in place, whatever its class (the top-level object is left alone); returns the
    number of containers changed."""
    n = 0
    children = list(x.values()) if isinstance(x, dict) else list(x) if isinstance(x, (list, tuple)) else []
    for c in children:
        n += mutate_all_nested(c, False)
    if not top:
        if isinstance(x, dict):
            x["\u0000verif-probe"] = 1
            n += 1
        elif isinstance(x, list):
            x.append("verif-probe")
            n += 1
    return n
