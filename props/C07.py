"""C07 \u2014 canonical serialization: deterministic, order-independent, injective, frozen."""
import hashlib
import json
import os
import shutil
import tempfile
import unicodedata

from hypothesis import strategies as st

from conda_content_trust import authentication as A, common as C, signing as S

from vlib import configrun, gen_json as G, keys, related
from vlib.ref_canon import canon, jeq
from vlib import fuzz as FZ
from vlib.runner import Unit, Violation
from vlib import interfere as _intf, interrupt as _interrupt

PROPERTY = "C07"
LEVEL = "exploration"
RULE = ("JSON values as a parser can return them (Hypothesis: all Unicode incl. isolated lone "
        "surrogates, all floats, ints to 2^2048, nesting, conda package records), each with a "
        "second drawn key-insertion order; oracles: byte equality with an independent recursive "
        "emitter (frozen format), parse round trip, fixpoint, order independence, one-leaf strict "
        "change always changes the bytes, file writer emits the same bytes, child interpreters "
        "under generated configurations give the same SHA-256. Non-trivial = the value has at least "
        "one of: non-ASCII, non-BMP, lone surrogate, control char, float, int>2^53, object with >=2 "
        "keys inserted unsorted, depth>=3 (for the injectivity unit: the changed value differs as "
        "JSON). Distinct = SHA-256 of the case.")
ASSUMPTIONS = [
    "CPython json.loads is used as 'a parser of well-formed JSON text' for the round-trip oracle",
    "the reference emitter vlib/ref_canon.py states the published format",
    "only locales C, C.UTF-8 and POSIX exist in the sandbox",
]


def _ser(v):
    try:
        return C.canonserialize(v)
    except Exception as e:  # any JSON value must serialize
        raise Violation("canonserialize raised %s: %s" % (type(e).__name__, e),
                        bucket="canonserialize raises " + type(e).__name__)


# ---- unit 1: differential + round trip + fixpoint + order independence -------------

@st.composite
def _value_with_perm(draw):
    v = draw(G.payloads)
    return {"v": v, "perm": G.shuffled(v, draw)}


def check_diff(case):
    v, perm = case["v"], case["perm"]
    b = _ser(v)
    if type(b) is not bytes:
        raise Violation("canonserialize returned %s, not bytes" % type(b).__name__)
    ref = canon(v)
    if b != ref:
        raise Violation("bytes differ from the published format: got %r want %r" % (b[:200], ref[:200]),
                        bucket="format differs")
    if _ser(perm) != b:
        raise Violation("key insertion order changes the canonical bytes", bucket="order dependence")
    if _ser(G.reversed_keys(v)) != b:
        raise Violation("reversed key insertion order changes the canonical bytes",
                        bucket="order dependence")
    try:
        back = json.loads(b)
    except Exception as e:
        raise Violation("canonical bytes do not parse: %s" % e, bucket="unparseable output")
    if not jeq(back, v):
        raise Violation("parse(canon(v)) != v", bucket="round trip")
    if _ser(back) != b:
        raise Violation("not a fixpoint of parse-then-serialize", bucket="fixpoint")
    f = G.features(v)
    return {"nontrivial": bool(f), "labels": sorted(f) or ["plain"]}


# ---- unit 2: metamorphic injectivity --------------------------------------------

CHANGES = ["retype", "replace", "rename_key", "drop", "dup", "swap", "normalize", "empty_flip",
           "hoist", "list_to_obj"]


@st.composite
def _value_with_change(draw):
    v = draw(G.payloads)
    return {"v": v, "path": draw(st.integers(0, 10 ** 6)), "change": draw(st.sampled_from(CHANGES)),
            "w": draw(G.scalars), "i": draw(st.integers(0, 10 ** 6))}


def _retype(x, i):
    alts = []
    if x is None:
        alts = ["null", False, 0, "", [], {}]
    elif type(x) is bool:
        alts = [int(x), str(x).lower(), float(x), None]
    elif type(x) is int:
        alts = [str(x), [x]]
        if abs(x) < 2 ** 53:
            alts.append(float(x))
        if x in (0, 1):
            alts.append(bool(x))
        alts.append(x + 1)
    elif type(x) is float:
        alts = [repr(x), [x]]
        if x == x and abs(x) < 2 ** 53 and x == int(x):
            alts.append(int(x))
        if x == 0.0:
            alts.append(-x)
    elif type(x) is str:
        alts = [x + " ", x + "\x00", x.upper() if x.upper() != x else x + "A", [x], "\ufeff" + x]
        if x in ("null", "true", "false"):
            alts.append(json.loads(x))
    elif type(x) is list:
        alts = [{"0": x}, [x], x + [None]]
    elif type(x) is dict:
        alts = [[x], list(x.items()) and [[k, x[k]] for k in x], dict(x, **{"": None}) if "" not in x else [x]]
    return alts[i % len(alts)]


def apply_change(case):
    v = case["v"]
    ps = list(G.paths(v))
    path = ps[case["path"] % len(ps)]
    node = G.get_path(v, path)
    ch, i = case["change"], case["i"]
    if ch == "retype":
        return G.set_path(v, path, _retype(node, i))
    if ch == "replace":
        return G.set_path(v, path, case["w"])
    if ch == "normalize" and type(node) is str:
        for form in ("NFD", "NFC", "NFKC"):
            try:
                n = unicodedata.normalize(form, node)
            except Exception:
                continue
            if n != node:
                return G.set_path(v, path, n)
        return G.set_path(v, path, node + "\u0301")
    if ch == "empty_flip":
        if node == []:
            return G.set_path(v, path, {})
        if node == {}:
            return G.set_path(v, path, [])
        if node == "":
            return G.set_path(v, path, None)
    if type(node) is dict and node:
        keys = list(node)
        k = keys[i % len(keys)]
        if ch == "rename_key":
            cands = [k + " ", k.upper(), k + "\x00", " " + k, unicodedata.normalize("NFD", k)
                     if k.isprintable() else k + "x"]
            nk = next((c for c in cands if c != k and c not in node), k + "\uffff")
            new = {(nk if kk == k else kk): vv for kk, vv in node.items()}
            return G.set_path(v, path, new)
        if ch == "drop":
            return G.del_path(v, path + (k,))
        if ch == "hoist" and type(node[k]) is dict and node[k]:
            # {"a": {"b": 1}}  ->  {"a": {}, "b": 1}  (element moved between nesting levels)
            inner = dict(node[k])
            kk = list(inner)[0]
            if kk not in node:
                new = dict(node)
                new[k] = {x: y for x, y in inner.items() if x != kk}
                new[kk] = inner[kk]
                return G.set_path(v, path, new)
    if type(node) is list and node:
        j = i % len(node)
        if ch == "drop":
            return G.set_path(v, path, node[:j] + node[j + 1:])
        if ch == "dup":
            return G.set_path(v, path, node[:j] + [node[j]] + node[j:])
        if ch == "swap" and len(node) > 1:
            k2 = (j + 1) % len(node)
            new = list(node)
            new[j], new[k2] = new[k2], new[j]
            return G.set_path(v, path, new)
        if ch == "hoist" and type(node[j]) is list:
            return G.set_path(v, path, node[:j] + node[j] + node[j + 1:])
        if ch == "list_to_obj":
            return G.set_path(v, path, {str(n): x for n, x in enumerate(node)})
    return G.set_path(v, path, _retype(node, i))


def check_inject(case):
    v = case["v"]
    v2 = apply_change(case)
    differs = not jeq(v, v2)
    b1, b2 = _ser(v), _ser(v2)
    if differs and b1 == b2:
        raise Violation("two different JSON values share canonical bytes %r" % b1[:200],
                        bucket="not injective")
    if not differs and b1 != b2:
        raise Violation("equal JSON values have different canonical bytes", bucket="not a function")
    return {"nontrivial": differs, "labels": [case["change"] + ("" if differs else ":noop")]}


# ---- unit 3: the file writer emits exactly the canonical bytes ---------------------

def check_file(case):
    v = case["v"]
    d = tempfile.mkdtemp(prefix="c07-")
    try:
        fn = os.path.join(d, "m.json")
        try:
            C.write_metadata_to_file(v, fn)
        except Exception as e:
            raise Violation("write_metadata_to_file raised %s: %s" % (type(e).__name__, e),
                            bucket="writer raises")
        data = open(fn, "rb").read()
        if data != canon(v):
            raise Violation("file bytes differ from the canonical bytes: %r" % data[:200],
                            bucket="file not canonical")
        back = C.load_metadata_from_file(fn)
        if not jeq(back, v):
            raise Violation("load(write(v)) != v", bucket="file round trip")
        if sorted(os.listdir(d)) != ["m.json"]:
            raise Violation("writer left extra files: %r" % os.listdir(d), bucket="extra files")
    finally:
        shutil.rmtree(d, ignore_errors=True)
    f = G.features(v)
    return {"nontrivial": bool(f), "labels": sorted(f) or ["plain"]}


# ---- unit 3b: histories - the bytes follow the value, not the object or an earlier call ------------

def _interfere(which):
    """Call some OTHER part of the public API (what a long-running process might do between two serializations)."""
    import builtins
    import copy
    import tempfile
    from conda_content_trust import cli as CLI, metadata_construction as MC
    from vlib import gen_metadata as GM
    pub = keys.pub_hex(keys.POOL[0])
    md = GM.wrap(MC.build_root_metadata(3, [pub], 1, [pub], 1, "2024-01-01T00:00:00Z", "2034-01-01T00:00:00Z"))
    tmp = tempfile.mkdtemp(prefix="c07i-")
    scripts = {1: ["1"], 2: ["7", "root", "2", "1"], 3: ["2", keys.POOL[0].hex(), "1"], 8: ["0", os.path.join(tmp, "out.json")],
               9: ["7", "nobody", "x", "9", "3", "1"]}
    try:
        if which == 0:
            CLI.build_parser()
        elif which in scripts:
            feed = iter(scripts[which])
            real = builtins.input

            def fake(prompt=""):
                try:
                    return next(feed)
                except StopIteration:
                    raise EOFError
            builtins.input = fake
            try:
                CLI.interactive_modify_metadata(copy.deepcopy(md))
            except EOFError:
                pass
            finally:
                builtins.input = real
        elif which == 4:
            MC.build_delegating_metadata("key_mgr", {"pkg_mgr": {"pubkeys": [pub], "threshold": 1}})
        elif which == 5:
            S.sign_signable(copy.deepcopy(md), C.PrivateKey.from_bytes(keys.POOL[1]))
        elif which == 6:
            try:
                A.verify_delegation("key_mgr", copy.deepcopy(md), copy.deepcopy(md))
            except Exception:
                pass
        elif which == 7:
            C.checkformat_delegating_metadata(copy.deepcopy(md))
    finally:
        shutil.rmtree(tmp, ignore_errors=True)


def check_history(case):
    import copy
    v = copy.deepcopy(case["v"])
    steps = 0
    if _ser(v) != canon(v):
        raise Violation("bytes differ from the published format", bucket="format differs")
    # other API activity in the same process must not change what canonserialize emits afterwards
    for which in case.get("interfere", []):
        try:
            _interfere(which % 10)
        except Violation:
            raise
        except Exception as e:
            raise Violation("API call #%d used as interference raised %s: %s" % (which % 10, type(e).__name__, str(e)[:100]),
                            bucket="interfering API call raises")
        steps += 1
        if _ser(v) != canon(v) or _ser(copy.deepcopy(v)) != canon(v):
            raise Violation("after an unrelated API call (#%d: parser / interactive metadata editor / builder / signer / verifier) "
                            "canonserialize emits different bytes for the same value" % (which % 10),
                            bucket="serialization changed by other API activity")
    # the very same object, changed in place, serialized again
    for mut in (related.inplace_mutate_nested, related.inplace_mutate):
        if mut(v):
            steps += 1
            if _ser(v) != canon(v):
                raise Violation("after changing the SAME object in place, canonserialize returns bytes that are not "
                                "the canonical bytes of its current value", bucket="stale bytes (identity)")
    # a value that is == and hash-equal in Python but a different JSON value, right after the original
    v = copy.deepcopy(case["v"])
    _ser(v)
    r = related.eq_retype(v)
    if r is not None:
        steps += 1
        if _ser(r) != canon(r):
            raise Violation("after serializing v, an ==-equal but different JSON value (1/True/1.0) gets v's bytes",
                            bucket="stale bytes (equality)")
    # the bytes that are signed and verified follow the value too
    seed = keys.POOL[case["k"] % len(keys.POOL)]
    pub = keys.pub_hex(seed)
    env = S.wrap_as_signable(case["v"])
    S.sign_signable(env, C.PrivateKey.from_bytes(seed))

    def verdict(e):
        try:
            A.verify_signable(e, [pub], 1)
            return True
        except C.SignatureError:
            return False
        except Exception as ex:
            raise Violation("verify_signable raised %s on an envelope made by wrap_as_signable/sign_signable: %s"
                            % (type(ex).__name__, str(ex)[:120]), bucket="verify raises " + type(ex).__name__)

    if not verdict(env):
        raise Violation("freshly signed envelope does not verify", bucket="sign/verify bytes differ")
    if type(env["signed"]) in (dict, list):
        steps += 1
        saved = copy.deepcopy(env["signed"])
        related.inplace_mutate(env["signed"])
        if verdict(env):
            raise Violation("signature still verifies after the signed object was changed in place: the verified bytes "
                            "are not a function of the current JSON value", bucket="stale verified bytes")
        if verdict(copy.deepcopy(env)):
            raise Violation("signature verifies on a changed deep copy", bucket="stale verified bytes")
        if type(env["signed"]) is dict:
            for k in [k for k in env["signed"] if k not in saved]:
                del env["signed"][k]
        else:
            del env["signed"][len(saved):]
        if not verdict(env):
            raise Violation("after restoring the value in place the signature no longer verifies",
                            bucket="stale verified bytes")
        if verdict(env) != verdict(copy.deepcopy(env)):
            raise Violation("an equal-valued deep copy gets a different verdict", bucket="identity dependence")
    # the same across verifiers: an offer that verify_root examined and refused, edited in place, then given to verify_signable
    from vlib import gen_metadata as GM, ref_openpgp
    a, b = keys.POOL[(case["k"] + 1) % 8], keys.POOL[(case["k"] + 2) % 8]
    T = GM.wrap(GM.signed_part("root", {"root": {"pubkeys": [keys.pub_hex(a)], "threshold": 1}, "key_mgr": {"pubkeys": [], "threshold": 1}}, version=1))
    N = GM.wrap(GM.signed_part("root", {"root": {"pubkeys": [keys.pub_hex(b)], "threshold": 1}, "key_mgr": {"pubkeys": [], "threshold": 1}},
                               version=2, extra={"payload": case["v"]}))
    GM.sign_envelope(N, [a], True)          # meets the trusted rule, not its own: refused during the second signature check
    try:
        A.verify_root(T, N)
        raise Violation("verify_root accepted an offer that does not meet its own root rule", bucket="verify_root accepts")
    except C.SignatureError:
        pass
    N["signed"]["edited"] = ["after", "the", "refusal"]
    for name, f_ in (("verify_signable", lambda: A.verify_signable(N, [keys.pub_hex(a)], 1, gpg=True)),
                     ("verify_delegation", lambda: A.verify_delegation("root", N, T, gpg=True))):
        try:
            f_()
            raise Violation("%s accepts an envelope whose signed part was edited in place after verify_root had examined it: the bytes "
                            "that were verified are not those of the value presented" % name, bucket="stale verified bytes")
        except C.SignatureError:
            pass
    steps += 1
    f = G.features(case["v"])
    return {"nontrivial": steps >= 2, "labels": ["steps=%d" % steps] + sorted(f)[:3]}


# ---- unit 4: every code point, exhaustively -----------------------------------------

def enum_codepoints(tier):
    step = 2048
    for start in range(0, 0x110000, step):
        yield {"start": start, "end": min(start + step, 0x110000)}


def check_codepoints(case):
    chars = [chr(c) for c in range(case["start"], case["end"])]
    for v in (chars, {c: None for c in chars}, {"k": "a" + "".join(
            c for c in chars if not (0xDC00 <= ord(c) < 0xE000)) + "z"}):
        b = _ser(v)
        if b != canon(v):
            raise Violation("code points %#x..%#x: bytes differ from the published format"
                            % (case["start"], case["end"]), bucket="format differs")
        if not jeq(json.loads(b), v):
            raise Violation("code points %#x..%#x: round trip fails" % (case["start"], case["end"]),
                            bucket="round trip")
    return {"nontrivial": True, "labels": ["plane-%d" % (case["start"] >> 16)],
            "count": {"codepoints": case["end"] - case["start"]}}


# ---- unit 5: configurations ------------------------------------------------------------

@st.composite
def _corpus_and_config(draw):
    vals = draw(st.lists(G.payloads, min_size=4, max_size=12))
    cfg = draw(configrun.configs)
    if draw(st.integers(0, 2)) == 0:
        cfg = configrun.with_ascii_locale(cfg)
    return {"values": [[v, G.shuffled(v, draw)] for v in vals], "config": cfg}


def check_config(case):
    flat = [x for pair in case["values"] for x in pair]
    want = [hashlib.sha256(canon(v)).hexdigest() for v in flat]
    # the value as read back from a file an external tool wrote in raw UTF-8 must serialize to the same bytes everywhere
    from vlib import gen_repodata as GR
    raws = [{"rawfile": GR.spell(pair[0], "utf8", canon)} for pair in case["values"]]
    loaded = configrun.run_child("persist", raws, case["config"])
    if isinstance(loaded, list):
        for i, (pair, (raw, back)) in enumerate(zip(case["values"], loaded)):
            if back != hashlib.sha256(canon(pair[0])).hexdigest():
                raise Violation("a raw-UTF-8 JSON file holding corpus item %d loads to a different value (or fails: %s) under "
                                "configuration %r, so the signed bytes depend on the locale" % (i, raw, {k: v for k, v in case["config"].items() if v}),
                                bucket="configuration dependence (loader)")
    got = configrun.run_child("canon", flat, case["config"])
    if got != want:
        bad = [i for i, (a, b) in enumerate(zip(got, want)) if a != b]
        raise Violation("canonical bytes differ under configuration %r for corpus items %r"
                        % (case["config"], bad[:5]), bucket="configuration dependence")
    f = set()
    for v in flat:
        f |= G.features(v)
    return {"nontrivial": bool(f), "labels": ["hashseed=%s" % case["config"].get("PYTHONHASHSEED"),
                                              "lc=%s" % case["config"].get("LC_ALL"),
                                              "tz=%s" % case["config"].get("TZ")]}


def check_fuzz(case):
    return FZ.run_campaign("fuzz_canon", case, PROPERTY)


def check_signers(case):
    """every signing entry point signs the bytes of THE canonical form (reference emitter), whatever path the value takes:
    serialize_and_sign, sign_signable, and sign_all_in_repodata / sign-artifacts where the value is an artifact's record"""
    import json
    import tempfile
    seed = keys.POOL[case["k"] % 16]
    pub = keys.pub_hex(seed)
    v = case["v"]
    want = canon(v)
    sig = S.serialize_and_sign(v, C.PrivateKey.from_bytes(seed))
    if not keys.verify_raw(pub, want, bytes.fromhex(sig)):
        raise Violation("serialize_and_sign signs other bytes than the canonical form of the value", bucket="signer: serialize_and_sign")
    env = S.wrap_as_signable(v) if type(v) in (dict, list, str, int, float, bool, type(None), tuple) else None
    if env is not None:
        S.sign_signable(env, C.PrivateKey.from_bytes(seed))
        if not keys.verify_raw(pub, want, bytes.fromhex(env["signatures"][pub]["signature"])):
            raise Violation("sign_signable signs other bytes than the canonical form of the value", bucket="signer: sign_signable")
    d = tempfile.mkdtemp(prefix="c07s-")
    try:
        fn = os.path.join(d, "repodata.json")
        sec = ["packages", "packages.conda"][case["k"] % 2]
        other = ["packages.conda", "packages"][case["k"] % 2]
        doc = {"info": {}, sec: {"a-1.0-0.tar.bz2": {"name": "a"}, "art\u00e9fact-1.0-0.conda": v}, other: {"z-1.0-0.conda": v}}
        with open(fn, "wb") as f:
            # the file as another tool wrote it: keys in reverse order, compact (the loaded dicts are NOT in sorted order)
            f.write(json.dumps(G.reversed_keys(doc), separators=(",", ":")).encode() if case["k"] % 4 else canon(doc))
        if case["k"] % 3 == 0:
            import contextlib
            import io
            from conda_content_trust import cli as CLI
            with open(os.path.join(d, "key"), "w") as f:
                f.write(seed.hex())
            with contextlib.redirect_stdout(io.StringIO()):
                CLI.cli(["sign-artifacts", fn, os.path.join(d, "key")])
        else:
            S.sign_all_in_repodata(fn, seed.hex())
        out = json.load(open(fn, "rb"))
        for name in ("art\u00e9fact-1.0-0.conda", "z-1.0-0.conda"):
            try:
                sg = bytes.fromhex(out["signatures"][name][pub]["signature"])
            except Exception:
                raise Violation("sign_all_in_repodata filed no signature for an artifact", bucket="signer: sign_all_in_repodata")
            if not keys.verify_raw(pub, want, sg):
                raise Violation("sign_all_in_repodata / sign-artifacts signs other bytes than the canonical form of the artifact's record "
                                "(features of the record: %s)" % sorted(G.features(v)), bucket="signer: sign_all_in_repodata")
    finally:
        shutil.rmtree(d, ignore_errors=True)
    f_ = G.features(v)
    return {"nontrivial": bool(f_), "labels": sorted(f_) or ["plain"]}


UNITS = [
    Unit("signers", check_signers, strategy=lambda: st.builds(lambda v, k: {"v": v, "k": k}, G.payloads, st.integers(0, 10 ** 6)),
         quick=500, thorough=20000, doc="every signing entry point (serialize_and_sign, sign_signable, sign_all_in_repodata, sign-artifacts) "
                                        "signs the reference canonical bytes of the value"),
    Unit("differential", check_diff, strategy=_value_with_perm, quick=1600, thorough=60000,
         essential=["non-ascii", "lone-surrogate", "non-bmp", "float", "unsorted-keys", "control"],
         doc="canonserialize == reference emitter; order independence; parse round trip; fixpoint"),
    Unit("injective", check_inject, strategy=_value_with_change, quick=1600, thorough=60000,
         doc="a strict one-leaf change of the JSON value always changes the bytes"),
    Unit("file", check_file, strategy=lambda: st.builds(lambda v: {"v": v}, G.payloads),
         quick=300, thorough=8000, doc="write_metadata_to_file writes exactly the canonical bytes"),
    Unit("history", check_history, strategy=lambda: st.builds(lambda v, k, i: {"v": v, "k": k, "interfere": i}, G.payloads,
                                                            st.integers(0, 15), st.lists(st.integers(0, 9), max_size=3)),
         quick=600, thorough=20000,
         doc="same object changed in place / ==-equal other JSON value / sign-verify around in-place edits: bytes follow the value"),
    Unit("fuzz", check_fuzz, enumerate=lambda tier: FZ.campaigns(tier, PROPERTY), shards_quick=4, shards_thorough=16,
         doc="atheris (libFuzzer) coverage-guided campaign with the oracle in-target"),
    Unit("codepoints", check_codepoints, enumerate=enum_codepoints, exhaustive=True,
         doc="every Unicode code point (incl. lone surrogates) as element, as key and inside a string"),
    Unit("config", check_config, shrink=False, strategy=_corpus_and_config, quick=24, thorough=400,
         doc="child interpreters under generated hash seed/locale/TZ/cwd/UTF-8 mode"),
    _intf.unit_after(PROPERTY, 'differential', quick=150, thorough=6000),
    _interrupt.unit_interrupted(PROPERTY, 'differential', quick=18, thorough=450, max_points=150),
]
