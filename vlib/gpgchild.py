"""Child process for the GnuPG interoperability part of C10 (and the gpg-sign part of C17/C18).

Runs with the securesystemslib stand-in (vlib/gpgshim) on sys.path and a private GNUPGHOME, so that the
library's OWN GPG path (root_signing.sign_root_metadata_via_gpg, fetch_keyval_from_gpg, sign_via_gpg) runs
unchanged against the real gpg binary.

Parent side: run(jobs, fresh_keys=0) -> {"keys": [{"fingerprint", "q", "armored_secret"?}], "results": [...]}
Job: {"envelope": <signable>, "signers": [key index, ...], "via": "file" | "dict" | "sign_via_gpg"}
Result: {"envelope": <signable after signing>} or {"error": "<exception class>: text"}
"""
import json
import os
import shutil
import subprocess
import sys
import tempfile

HERE = os.path.dirname(os.path.abspath(__file__))
ROOT = os.path.dirname(HERE)
REPO = os.environ.get("VERIF_REPO", "/repo")
SHIM = os.path.join(HERE, "gpgshim")

TEST_KEYS = [("tests/testdata/test_key_1_268B62D0.pri.asc", "917adb684e2e9fb5ed4e59909ddd19a1268b62d0"),
             ("tests/testdata/test_key_2_7DB43643.pri.asc", "0a14b126c986f276831c7b04134f35b47db43643")]


def run(jobs, fresh_keys=0, timeout=900):
    from . import tagjson
    d = tempfile.mkdtemp(prefix="gpgchild-")
    home = os.path.join(d, "gnupg")
    os.makedirs(home, mode=0o700)
    try:
        with open(os.path.join(d, "jobs.json"), "w", encoding="utf-8") as f:
            f.write(tagjson.dumps({"jobs": jobs, "fresh_keys": fresh_keys}))
        env = dict(os.environ, GNUPGHOME=home, PYTHONPATH=os.pathsep.join([SHIM, REPO, ROOT]), VERIF_REPO=REPO,
                   PYTHONDONTWRITEBYTECODE="1")
        p = subprocess.run([sys.executable, os.path.join(HERE, "gpgchild.py"), d], env=env, cwd=d,
                           stdout=subprocess.PIPE, stderr=subprocess.PIPE, timeout=timeout)
        out = os.path.join(d, "out.json")
        if p.returncode != 0 or not os.path.exists(out):
            return {"child_failed": p.returncode, "stderr": p.stderr.decode("utf-8", "replace")[-3000:]}
        return tagjson.loads(open(out, encoding="utf-8").read())
    finally:
        subprocess.run(["gpgconf", "--homedir", home, "--kill", "all"], stdout=subprocess.DEVNULL, stderr=subprocess.DEVNULL)
        shutil.rmtree(d, ignore_errors=True)


def gpg(*args, data=None):
    p = subprocess.run(["gpg", "--batch", "--yes", "--no-tty"] + list(args), input=data, stdout=subprocess.PIPE,
                       stderr=subprocess.PIPE, timeout=120)
    return p.returncode, p.stdout, p.stderr.decode("utf-8", "replace")


def _child(d):
    sys.path.insert(0, ROOT)
    from vlib import tagjson
    spec = tagjson.loads(open(os.path.join(d, "jobs.json"), encoding="utf-8").read())
    import conda_content_trust
    assert os.path.realpath(conda_content_trust.__file__).startswith(os.path.realpath(REPO) + os.sep)
    from conda_content_trust import common as C, root_signing as RS
    assert RS.SSLIB_AVAILABLE, "the securesystemslib stand-in was not picked up"
    keys = []
    for path, fpr in TEST_KEYS:
        rc, _, err = gpg("--import", os.path.join(REPO, path))
        if rc != 0:
            raise SystemExit("cannot import %s: %s" % (path, err))
        keys.append({"fingerprint": fpr})
    for i in range(spec.get("fresh_keys", 0)):
        uid = "verif-fresh-%d@example.invalid" % i
        rc, _, err = gpg("--pinentry-mode", "loopback", "--passphrase", "", "--quick-generate-key", uid, "ed25519", "sign", "never")
        if rc != 0:
            raise SystemExit("cannot generate key: %s" % err)
        rc, out, err = gpg("--with-colons", "--list-keys", uid)
        fpr = [l.split(":")[9] for l in out.decode().splitlines() if l.startswith("fpr")][0].lower()
        rc, sec, err = gpg("--pinentry-mode", "loopback", "--passphrase", "", "--armor", "--export-secret-keys", fpr)
        keys.append({"fingerprint": fpr, "armored_secret": sec.decode("ascii", "replace")})
    for k in keys:
        # the library's own lookup, given the fingerprint the way gpg prints it
        spaced = " ".join(k["fingerprint"].upper()[i:i + 4] for i in range(0, 40, 4))
        k["q"] = RS.fetch_keyval_from_gpg(spaced)
        k["q_plain"] = RS.fetch_keyval_from_gpg(k["fingerprint"])
    results = []
    for n, job in enumerate(spec["jobs"]):
        try:
            env = job["envelope"]
            fn = os.path.join(d, "md-%d.json" % n)
            if job["via"] == "file":
                C.write_metadata_to_file(env, fn)
                for i in job["signers"]:
                    RS.sign_root_metadata_via_gpg(fn, keys[i % len(keys)]["fingerprint"])
                res = {"envelope": C.load_metadata_from_file(fn), "file_bytes": open(fn, "rb").read()}
            elif job["via"] == "dict":
                for i in job["signers"]:
                    r = RS.sign_root_metadata_dict_via_gpg(env, keys[i % len(keys)]["fingerprint"])
                res = {"envelope": env}
            else:  # sign_via_gpg on raw bytes
                data = job["data"]
                sigs = []
                for i in job["signers"]:
                    sigs.append(RS.sign_via_gpg(data, keys[i % len(keys)]["fingerprint"],
                                                include_fingerprint=bool(job.get("include_fingerprint"))))
                res = {"entries": sigs}
            res["signers"] = [i % len(keys) for i in job["signers"]]
            results.append(res)
        except Exception as e:
            import traceback
            results.append({"error": "%s: %s" % (type(e).__name__, e), "trace": traceback.format_exc()[-1500:]})
    with open(os.path.join(d, "out.json"), "w", encoding="utf-8") as f:
        f.write(tagjson.dumps({"keys": keys, "results": results}))


if __name__ == "__main__":
    _child(sys.argv[1])
