"""C01 - threshold soundness: no acceptance without enough valid authorized signers."""
import copy
import itertools

from hypothesis import strategies as st

from conda_content_trust import authentication as A

from vlib import cfgunit, configrun, gen_envelope as GE, gen_json as G, gen_metadata as GM, keys, ref_openpgp, ref_verify as RV, related
from vlib.ref_canon import canon
from vlib.runner import Unit, Violation
from vlib import clicheck as _clicheck
from vlib import threaded as _threaded
from vlib import interfere as _interfere, interrupt as _interrupt

PROPERTY = "C01"
LEVEL = "exploration"
RULE = ("Envelopes built per key from a drawn entry state (valid, valid by another conforming signer, "
        "signature over another payload, bit flip, mis-filed, wrong shape for the mode, malformed, upper-case "
        "hex, unauthorized, alternative spellings of the map key, junk) x authorized multiset (ghost keys, "
        "duplicates) x threshold at the boundary x both modes; oracle: independent threshold counter - accepted "
        "implies the upper bound of distinct valid authorized signers >= threshold; re-checked through "
        "verify_delegation and verify_root. Non-trivial = rejected-or-accepted case that sits one wrong decision "
        "from a false accept: must-count signers < threshold <= must-count + number of non-counting entries. "
        "Exhaustive unit: 3 keys x 6 states x 8 authorized subsets x 4 thresholds x 2 modes = 13,824 envelopes.")
ASSUMPTIONS = ["Ed25519 is unforgeable (forgeries needing a break of the primitive are out of reach)",
               "cryptography's raw Ed25519 verify is the oracle primitive (cross-checked in C19)",
               "small-order / non-canonical public keys are not generated as authorized keys"]


def _info(case, env, lo, up, observed):
    n_non = len(env["signatures"]) - lo
    thr = case["threshold"]
    labs = GE.labels(case)
    return {"nontrivial": lo < thr <= lo + n_non, "labels": labs + ["gpg" if case["gpg"] else "raw",
                                                                     "accepted" if observed == "accept" else "rejected"],
            "gray": lo < thr <= up}


def history_probes(call, env, authorized_of, threshold_of, gpg, what):
    """After the main call: the same question on related inputs, in the same process (see vlib/related.py).
    call(envelope) -> outcome.  Soundness must hold for each of them too.  The in-place mutation of the very
    object just verified comes first, so that it immediately follows the call it is related to."""
    import copy
    original = copy.deepcopy(env)
    n = 0
    if related.inplace_mutate(env["signed"]):
        n += _probe_one(call, env, authorized_of, threshold_of, gpg, what, "the SAME payload object mutated in place")
    e2 = copy.deepcopy(original)
    call(e2)
    if related.inplace_mutate_nested(e2["signed"]):
        n += _probe_one(call, e2, authorized_of, threshold_of, gpg, what,
                        "a nested container of the SAME payload object mutated in place")
    call(copy.deepcopy(original))
    r = related.eq_retype(original["signed"])
    if r is not None:
        n += _probe_one(call, dict(copy.deepcopy(original), signed=r), authorized_of, threshold_of, gpg, what,
                        "payload retyped between ==-equal JSON values, signatures kept")
    call(copy.deepcopy(original))
    n += _probe_one(call, dict(copy.deepcopy(original), signed=related.field_change(original["signed"])),
                    authorized_of, threshold_of, gpg, what, "payload changed, signatures kept (new object)")
    return n


def _probe_one(call, e, authorized_of, threshold_of, gpg, what, name):
    obs = call(e)
    for auth, thr in zip(authorized_of(e), threshold_of(e)):
        lo, up = RV.count_bounds(e, auth, gpg)
        if obs == "accept" and up < thr:
            raise Violation("%s accepted with at most %d valid authorized signers for threshold %d on a related input "
                            "presented after an earlier call: %s" % (what, up, thr, name),
                            bucket="false accept (history) " + what)
    return 1


def check_signable(case):
    env = GE.to_envelope(case)
    observed, _ = RV.outcome(A.verify_signable, env, case["authorized"], case["threshold"], gpg=case["gpg"])
    lo, up = RV.count_bounds(env, case["authorized"], case["gpg"])
    if observed == "accept" and up < case["threshold"]:
        raise Violation("verify_signable accepted with at most %d valid authorized signers for threshold %d "
                        "(entries: %s)" % (up, case["threshold"], GE.labels(case)), bucket="false accept verify_signable")
    info = _info(case, env, lo, up, observed)
    n = history_probes(lambda e: RV.outcome(A.verify_signable, e, case["authorized"], case["threshold"], gpg=case["gpg"])[0],
                       env, lambda e: [case["authorized"]], lambda e: [case["threshold"]], case["gpg"], "verify_signable")
    info["count"] = {"history_probes": n}
    return info


ROLES = ["pkg_mgr", "key_mgr", "root", "x y"]


@st.composite
def _delegation_cases(draw):
    case = draw(GE.envelopes())
    case["role"] = draw(st.sampled_from(ROLES))
    case["ttype"] = draw(st.sampled_from(["root", "key_mgr"]))
    return case


def _trusted_for(case, role):
    auth = list(dict.fromkeys(case["authorized"]))   # a delegation lists distinct keys
    dels = {role: {"pubkeys": auth, "threshold": case["threshold"]}}
    if role != "root":
        dels["root"] = {"pubkeys": [], "threshold": 1}
    return GM.wrap(GM.signed_part(case.get("ttype", "root"), dels, version=3))


def check_delegation(case):
    env = GE.to_envelope(case)
    T = _trusted_for(case, case["role"])
    observed, _ = RV.outcome(A.verify_delegation, case["role"], env, T, gpg=case["gpg"])
    auth = T["signed"]["delegations"][case["role"]]["pubkeys"]
    lo, up = RV.count_bounds(env, auth, case["gpg"])
    if observed == "accept" and up < case["threshold"]:
        raise Violation("verify_delegation accepted with at most %d valid authorized signers for threshold %d (%s)"
                        % (up, case["threshold"], GE.labels(case)), bucket="false accept verify_delegation")
    info = _info(case, env, lo, up, observed)
    n = history_probes(lambda e: RV.outcome(A.verify_delegation, case["role"], e, T, gpg=case["gpg"])[0],
                       env, lambda e: [auth], lambda e: [case["threshold"]], case["gpg"], "verify_delegation")
    info["count"] = {"history_probes": n}
    return info


@st.composite
def _root_cases2(draw):
    v = draw(st.integers(1, 50))
    seeds = draw(keys.seed_lists(min_size=2, max_size=5))
    pubs = [keys.pub_hex(s) for s in seeds]
    own = draw(st.one_of(st.just(pubs), st.lists(st.sampled_from(pubs), unique=True, min_size=0, max_size=len(pubs))))
    own_thr = draw(st.sampled_from([1, 1, 1, 2, 3]))
    payload = GM.signed_part("root", {"root": {"pubkeys": own, "threshold": own_thr},
                                      "key_mgr": {"pubkeys": pubs[:1], "threshold": 1}}, version=v + 1)
    case = draw(GE.envelopes(payloads=st.just(payload), gpg=True))
    case["version"] = v
    return case


def check_root(case):
    env = GE.to_envelope(case)
    auth = list(dict.fromkeys(case["authorized"]))
    T = GM.wrap(GM.signed_part("root", {"root": {"pubkeys": auth, "threshold": case["threshold"]},
                                        "key_mgr": {"pubkeys": [], "threshold": 1}}, version=case["version"]))
    observed, _ = RV.outcome(A.verify_root, T, env)
    lo, up = RV.count_bounds(env, auth, True)
    own = env["signed"]["delegations"]["root"]
    lo2, up2 = RV.count_bounds(env, own["pubkeys"], True)
    if observed == "accept" and (up < case["threshold"] or up2 < own["threshold"]):
        raise Violation("verify_root accepted: trusted rule %d/%d, own rule %d/%d (%s)"
                        % (up, case["threshold"], up2, own["threshold"], GE.labels(case)),
                        bucket="false accept verify_root")
    info = _info(case, env, lo, up, observed)
    info["labels"].append("own-rule-unmet" if lo2 < own["threshold"] else "own-rule-met")
    return info


# ---- exhaustive 3-key sub-domain ---------------------------------------------------------------

EX_STATES = ["valid", "other_payload", "bitflip", "misfiled", "wrong_shape", "upper_key"]
EX_PAYLOAD = {"a": [1, 2.5, "\u00e9"], "b": None}
_EX_CACHE = {}


def _ex_entry(i, state, gpg):
    key = (i, state, gpg)
    if key in _EX_CACHE:
        return _EX_CACHE[key]
    seed = keys.POOL[i]
    p = keys.pub_hex(seed)
    B = canon(EX_PAYLOAD)

    def ent(s, data, g):
        if g:
            return ref_openpgp.entry(s, data)
        return {"signature": keys.sign_raw(s, data).hex()}

    if state == "valid":
        r = (p, ent(seed, B, gpg))
    elif state == "other_payload":
        r = (p, ent(seed, canon({"a": [1, 2.5, "\u00e9"], "b": 0}), gpg))
    elif state == "bitflip":
        e = ent(seed, B, gpg)
        hx = e["signature"]
        e["signature"] = hx[:77] + "%x" % (int(hx[77], 16) ^ 4) + hx[78:]
        r = (p, e)
    elif state == "misfiled":
        r = (p, ent(keys.POOL[7], B, gpg))
    elif state == "wrong_shape":
        r = (p, ent(seed, B, not gpg))
    else:  # upper_key: valid entry filed under the upper-case spelling
        r = (p.upper(), ent(seed, B, gpg))
    _EX_CACHE[key] = r
    return r


def enum_exhaustive(tier):
    for states in itertools.product(range(len(EX_STATES)), repeat=3):
        for mask in range(8):
            for thr in range(1, 5):
                for gpg in (False, True):
                    yield {"states": list(states), "mask": mask, "threshold": thr, "gpg": gpg}


def check_exhaustive(case):
    sigs = {}
    for i, st_ in enumerate(case["states"]):
        k, e = _ex_entry(i, EX_STATES[st_], case["gpg"])
        sigs[k] = e
    env = {"signatures": sigs, "signed": EX_PAYLOAD}
    auth = GM.subset_by_mask([keys.pub_hex(keys.POOL[i]) for i in range(3)], case["mask"])
    observed, _ = RV.outcome(A.verify_signable, env, auth, case["threshold"], gpg=case["gpg"])
    lo, up = RV.count_bounds(env, auth, case["gpg"])
    if observed == "accept" and up < case["threshold"]:
        raise Violation("verify_signable accepted with at most %d valid authorized signers for threshold %d; "
                        "states %s authorized-mask %d gpg=%s" % (up, case["threshold"],
                                                                [EX_STATES[s] for s in case["states"]],
                                                                case["mask"], case["gpg"]),
                        bucket="false accept verify_signable")
    return {"nontrivial": lo < case["threshold"] <= 3, "labels": ["accepted" if observed == "accept" else "rejected"]}


@st.composite
def _config_cases(draw):
    calls = []
    for _ in range(draw(st.integers(3, 6))):
        c = draw(GE.envelopes())
        calls.append(["verify_signable", GE.to_envelope(c), c["authorized"], c["threshold"], c["gpg"]])
    c = draw(_delegation_cases())
    calls.append(["verify_delegation", c["role"], GE.to_envelope(c), _trusted_for(c, c["role"]), c["gpg"]])
    cfg = draw(configrun.configs)
    cfg["stdout"] = draw(st.sampled_from([None, "closed", "broken"]))
    return {"calls": calls, "config": cfg}


def check_config(case):
    verdicts, labels, count = cfgunit.config_probe(case["calls"], "sound", case["config"])
    return {"nontrivial": "accept" in verdicts and len(set(verdicts)) > 1, "labels": labels, "count": count}


def check_interrupted(case):
    from props import C12
    return C12.check_fault_then_call(case)


def _interrupted_cases():
    from props import C12
    return C12._fault_cases()


def check_interrupted_sweep(case):
    from props import C12
    return C12.check_fault_sweep(case)


def _case_spellings(k):
    """spellings of a key that differ only in letter case / one character class (the near-misses of 'lower-case hex')"""
    out = [k.upper(), k[:10].upper() + k[10:], k[:-8] + k[-8:].upper()]
    for i, ch in enumerate(k):
        if ch in "abcdef":
            out.append(k[:i] + ch.upper() + k[i + 1:])
            break
    return [v for v in dict.fromkeys(out) if v != k]


@st.composite
def _envelopes_spelled(draw):
    """the envelope corpus; one case in six is the two-spellings attack made explicit: a valid entry of an authorized signer is
    copied under another spelling of its key (upper / mixed case), the caller's list of authorized keys names that spelling as
    well, and the threshold is one more than the number of real signers.  Such a list is not a list of keys, and a signature
    under such a name is nobody's: the envelope must not be accepted."""
    c = draw(GE.envelopes())
    valid = [(k, v) for k, v, lab in c["sigs"] if lab in ("valid", "valid_nonce") and k in c["authorized"]]
    if valid and draw(st.integers(0, 5)) == 0:
        k, v = valid[draw(st.integers(0, len(valid) - 1))]
        sp = _case_spellings(k)
        if sp:
            v2 = sp[draw(st.integers(0, len(sp) - 1))]
            c["sigs"] = [x for x in c["sigs"] if x[0] != v2] + [[v2, copy.deepcopy(v), "variant_key"]]
            c["authorized"] = list(c["authorized"]) + [v2]
            c["threshold"] = len({kk for kk, _ in valid}) + 1
    return c


ODD_THRESHOLDS = [float("nan"), float("inf"), float("-inf"), 0, -1, 0.0, -0.0, 0.5, 1.5, 1e-300, None, "1", "", [], [1], {}, (1,), b"1", False,
                  -(10 ** 400)]


def enum_thresholds(tier):
    for i, t in enumerate(ODD_THRESHOLDS):
        for n_valid in (0, 1, 2):
            for gpg in (False, True):
                yield {"t": t, "n_valid": n_valid, "gpg": gpg, "i": i}


def check_threshold(case):
    """a threshold that is no integer >= 1 (NaN, infinities, zero, negatives, fractions, non-numbers) never makes verify_signable
    return normally with fewer valid authorized signers than ANY natural threshold would need - in particular never with none"""
    from vlib import tagjson
    t = case["t"]
    seeds = keys.POOL[:3]
    pubs = [keys.pub_hex(s) for s in seeds]
    env = GM.wrap({"name": "pkg", "i": case["i"]})
    GM.sign_envelope(env, seeds[:case["n_valid"]], case["gpg"])
    env["signatures"][pubs[2]] = {"signature": "00" * 64} if not case["gpg"] else {"other_headers": "04", "signature": "00" * 64}
    o, exc = RV.outcome(A.verify_signable, env, pubs, t, gpg=case["gpg"])
    numeric = type(t) in (int, float) and t == t
    if o == "accept" and not (numeric and case["n_valid"] >= t and case["n_valid"] >= 1):
        raise Violation("verify_signable(threshold=%r) returned normally with %d valid authorized signer(s)" % (t, case["n_valid"]),
                        bucket="odd threshold accepted")
    return {"nontrivial": True, "labels": ["t=" + type(t).__name__, "out=" + o]}


UNITS = [
    Unit("thresholds", check_threshold, enumerate=enum_thresholds, exhaustive=True, shards_quick=2,
         doc="20 thresholds that are no natural number (NaN, +-inf, 0, negatives, fractions, non-numbers) x 0-2 valid signers x both modes"),
    Unit("interrupted_sweep", check_interrupted_sweep, strategy=lambda: __import__("props.C12", fromlist=["x"])._sweep_cases(),
         quick=36, thorough=900, shards_quick=6,
         doc="every line event and every C-level call (the crypto dependency included) of a verification interrupted once, then retried"),
    Unit("interrupted", check_interrupted, strategy=_interrupted_cases, quick=160, thorough=2000, shards_quick=8,
         doc="calls interrupted by an injected exception, then evaluated normally: an interrupted verification leaves nothing behind "
             "that could count as a signer later"),
    Unit("config", check_config, strategy=_config_cases, quick=96, thorough=600, shards_quick=16, shrink=False,
         doc="soundness in fresh interpreters: -O, logging level, warnings filter, stdout encoding / closed stdout, discovered environment variables"),
    Unit("signable", check_signable, strategy=lambda: _envelopes_spelled(), quick=1200, thorough=40000,
         essential=["other_payload:leaf", "bitflip:signature", "misfiled", "wrong_shape", "malformed", "upper_sig",
                    "unauthorized", "variant_key", "junk", "valid_nonce"], essential_min=0.02,
         doc="verify_signable: accepted => enough distinct valid authorized signers"),
    Unit("delegation", check_delegation, strategy=_delegation_cases, quick=500, thorough=15000,
         doc="same through verify_delegation with keys/threshold embedded in trusted metadata"),
    Unit("root", check_root, strategy=_root_cases2, quick=400, thorough=12000,
         doc="same through verify_root (OpenPGP mode, trusted rule and own rule)"),
    Unit("exhaustive3", check_exhaustive, enumerate=enum_exhaustive, exhaustive=True, shards_quick=8,
         doc="3 keys x 6 entry states x 8 authorized subsets x thresholds 1..4 x 2 modes, complete"),
    _interfere.unit_after(PROPERTY, 'signable', quick=150, thorough=6000),
    _threaded.unit_threads(PROPERTY),
    _clicheck.unit_cli(),
]
