"""C03 - root update accepted iff version+1 and signed per the old and the new root rules."""
import copy

from hypothesis import strategies as st

from conda_content_trust import authentication as A

from vlib import cfgunit, configrun, hostile, gen_envelope as GE, gen_json as G, gen_metadata as GM, keys, ref_openpgp, ref_schema, ref_verify as RV, \
    related
from vlib.ref_canon import canon
from vlib.runner import Unit, Violation
from vlib import clicheck as _clicheck
from vlib import threaded as _threaded
from vlib import interfere as _interfere, interrupt as _interrupt

PROPERTY = "C03"
LEVEL = "exploration"
RULE = ("Pairs (trusted root, offered root) built from a drawn plan: trusted version v (1..2^40 and boundary "
        "values), offered version in {v+1, v, v-1, v+2, 1, huge}, offered root key set same / rotated / grown / shrunk "
        "/ disjoint, thresholds at the boundaries, signer subset any subset of the pool, per-signer entry state "
        "(valid OpenPGP, valid with chosen nonce, raw-shaped, bit flip, other payload, filed under another key), one "
        "optional structural flaw (type key_mgr on either side, root delegation missing on either side, malformed "
        "field, junk signature entry) - oracle: independent root-update rule, BOTH directions (accepted <=> rule "
        "holds) plus permitted error classes. Non-trivial = exactly one conjunct of the rule is false, or all hold "
        "with rotated keys. Distinct = SHA-256 of the case.")
ASSUMPTIONS = ["versions are Python ints; integral-float / bool versions are gray (DESIGN.md section 6)",
               "cryptography raw Ed25519 as oracle primitive (cross-checked in C19)"]

FLAWS = ["none", "none", "none", "version", "version", "trusted_sigs", "own_sigs", "type_T", "type_N", "noroot_T", "noroot_N",
         "malformed_T", "malformed_N", "junk_entry", "self_appointed", "threshold_from_new", "spelling_dups", "dup_keys_T", "dup_keys_N",
         "raised_threshold", "many_one_short", "time_T", "time_N", "time_N"]
VERSION_PLANS = ["v", "v-1", "v+2", "1", "huge"]
ENTRY_STATES = ["valid", "valid", "valid", "valid", "nonce", "raw_shape", "bitflip", "other_payload", "misfiled", "hex_whitespace"]

MALFORM = [("version", "2"), ("version", 0), ("version", None), ("version", 1.5), ("expiration", "2031-13-01T00:00:00Z"),
           ("expiration", 5), ("delegations", []), ("metadata_spec_version", 6), ("type", "Root"), ("timestamp", "yesterday"),
           ("version", -3), ("version", float("inf")), ("version", float("nan"))]


@st.composite
def root_pairs(draw):
    seeds = draw(keys.seed_lists(2, 6))
    n = len(seeds)
    pubs = [keys.pub_hex(s) for s in seeds]
    flaw = draw(st.sampled_from(FLAWS))
    if flaw == "many_one_short":
        # 9-20 root keys, every one of them has an entry, exactly one too few of the entries are valid (cut-offs like "more than
        # 8 candidates are checked in parallel" are only reached by such offers)
        seeds = keys.derived_seeds(draw(st.integers(0, 2 ** 32)), draw(st.integers(9, 20)))
        n = len(seeds)
        pubs = [keys.pub_hex(s) for s in seeds]
    v = draw(GM.versions)
    kt_mask = draw(st.integers(1, 2 ** n - 1))
    KT = GM.subset_by_mask(list(range(n)), kt_mask)
    tT = draw(st.sampled_from([1, len(KT), max(1, len(KT) - 1)]))
    rel = draw(st.sampled_from(["same", "rotated", "grown", "shrunk", "disjoint", "any"]))
    rest = [i for i in range(n) if i not in KT]
    if rel == "same":
        KN = list(KT)
    elif rel == "grown":
        KN = KT + rest[:1]
    elif rel == "shrunk":
        KN = KT[:-1] or KT
    elif rel == "disjoint":
        KN = rest or KT
    elif rel == "rotated":
        KN = KT[1:] + rest[:1] or KT
    else:
        KN = GM.subset_by_mask(list(range(n)), draw(st.integers(1, 2 ** n - 1)))
    tN = draw(st.sampled_from([1, len(KN), max(1, len(KN) - 1)]))
    # signers
    if flaw == "trusted_sigs":
        signers = [i for i in KN if i not in KT][:tN] + [i for i in KN if i in KT][:max(0, tT - 1)]
    elif flaw == "own_sigs":
        signers = [i for i in KT if i not in KN][:tT] + [i for i in KT if i in KN][:max(0, tN - 1)]
    elif flaw == "self_appointed":
        KN = rest or KN
        tN = 1
        signers = list(KN)
    elif flaw == "raised_threshold":
        # the offered root keeps the key set (listed in another order) and asks for MORE signatures than the trusted one did;
        # the signers meet the old threshold only
        if len(KT) < 2:
            KT = (KT + rest)[:2]
        KN = list(draw(st.permutations(KT)))
        tT = draw(st.integers(1, len(KT) - 1))
        tN = draw(st.integers(tT + 1, len(KN)))
        signers = list(draw(st.permutations(KT)))[:draw(st.integers(tT, tN - 1))]
    elif flaw == "many_one_short":
        KT = list(range(n))
        KN = list(draw(st.permutations(KT)))
        tT = tN = draw(st.integers(2, n))
        signers = list(draw(st.permutations(KT)))
        forced = {i: ("valid" if j < tT - 1 else draw(st.sampled_from(["bitflip", "other_payload", "misfiled"]))) for j, i in enumerate(signers)}
    elif flaw == "spelling_dups":
        # one signer short of the trusted threshold; the shortfall is "made up" by alternative spellings
        tT = max(2, tT) if len(KT) >= 2 else 2
        signers = KT[:tT - 1]
    elif flaw == "threshold_from_new":
        # enough for the offered root's (lower) threshold, not for the trusted one
        tN = 1
        tT = max(2, tT) if len(KT) >= 2 else tT
        signers = KT[:1] + [i for i in KN if i not in KT]
    else:
        signers = sorted(set(draw(st.permutations(KT))[:tT]) | set(draw(st.permutations(KN))[:tN]))
        if draw(st.integers(0, 5)) == 0:
            signers = GM.subset_by_mask(list(range(n)), draw(st.integers(0, 2 ** n - 1)))
    vplan = "v+1"
    if flaw == "version":
        vplan = draw(st.sampled_from(VERSION_PLANS))
        if draw(st.booleans()):   # versions where float / 64-bit arithmetic would collide
            v = draw(st.sampled_from([2 ** 53, 2 ** 53 + 1, 2 ** 63 - 1, 2 ** 63, 2 ** 64 - 1, 2 ** 64, 10 ** 30, 2 ** 31 - 1]))
    vN = {"v+1": v + 1, "v": v, "v-1": v - 1, "v+2": v + 2, "1": 1, "huge": v + 2 ** 64}[vplan]
    if vN < 1 or (flaw == "version" and vN == v + 1):
        vN = v + 3
    ts = GM.signed_part("root", {"root": {"pubkeys": [pubs[i] for i in KT], "threshold": tT},
                                 "key_mgr": {"pubkeys": pubs[:1], "threshold": 1}}, version=v,
                        timestamp=draw(GM.utc_times), expiration=draw(GM.utc_times))
    ns = GM.signed_part("root", {"root": {"pubkeys": [pubs[i] for i in KN], "threshold": tN},
                                 "key_mgr": {"pubkeys": pubs[-1:], "threshold": 1}}, version=vN,
                        extra=draw(st.one_of(st.none(), st.dictionaries(G.strings, G.scalars, max_size=2))))
    if flaw == "dup_keys_T":
        # the same key listed twice, threshold 2, one signer: not well-formed metadata, and one signature must not count twice
        ts["delegations"]["root"] = {"pubkeys": [pubs[KT[0]], pubs[KT[0]]], "threshold": 2}
    if flaw == "dup_keys_N":
        ns["delegations"]["root"] = {"pubkeys": [pubs[KN[0]]] * 2 + [pubs[i] for i in KN[1:]], "threshold": max(2, tN)}
    if flaw == "type_T":
        ts["type"] = "key_mgr"
    if flaw == "type_N":
        ns["type"] = "key_mgr"
    if flaw == "noroot_T":
        del ts["delegations"]["root"]
    if flaw == "noroot_N":
        del ns["delegations"]["root"]
    if flaw in ("time_T", "time_N"):
        # an otherwise acceptable update in which one time field uses another spelling (numeric offset for Z, blank for T, no
        # seconds, date only, basic format, fraction ...): the reference schema decides (strptime-lenient spellings are gray)
        from vlib import gen_mutate as MU
        side = ts if flaw == "time_T" else ns
        f = draw(st.sampled_from([k for k in ("expiration", "timestamp") if isinstance(side.get(k), str)]))
        new = MU._edit(side[f], "time:" + draw(st.sampled_from(MU.TIME_EDITS)))
        if new is not None:
            side[f] = new
    if flaw in ("malformed_T", "malformed_N"):
        f, val = draw(st.sampled_from(MALFORM))
        side = ts if flaw == "malformed_T" else ns
        if draw(st.booleans()):
            # another spelling of a time (offset instead of Z, blank for T, no seconds, date only ...) or a present-but-falsy field
            from vlib import gen_mutate as MU
            f = draw(st.sampled_from(["expiration", "timestamp", "version"]))
            val = draw(st.sampled_from([0, None, False, "", 0.0])) if f == "version" or draw(st.integers(0, 4)) == 0 else \
                (MU._edit(side.get(f), "time:" + draw(st.sampled_from(MU.TIME_EDITS))) if isinstance(side.get(f), str) else "")
            if val is None and f != "version":
                val = ""
        side[f] = val
    T = GM.wrap(ts)
    N = GM.wrap(ns)
    B = canon(ns)
    for i in signers:
        state = forced[i] if flaw == "many_one_short" else draw(st.sampled_from(ENTRY_STATES)) if flaw in ("none", "junk_entry") or (
            flaw != "version" and draw(st.integers(0, 3)) == 0) else "valid"
        s = seeds[i]
        hdr = draw(GE.HEADERS)
        if state == "valid":
            e = ref_openpgp.entry(s, B, headers=hdr)
        elif state == "nonce":
            e = ref_openpgp.entry(s, B, headers=hdr, signer=keys.make_nonce_signer(draw(st.integers(1, 2 ** 200))))
        elif state == "raw_shape":
            e = {"signature": keys.sign_raw(s, B).hex()}
        elif state == "bitflip":
            e = ref_openpgp.entry(s, B, headers=hdr)
            hx = e["signature"]
            j = draw(st.integers(0, 127))
            e["signature"] = hx[:j] + "%x" % (int(hx[j], 16) ^ 1) + hx[j + 1:]
        elif state == "hex_whitespace":
            # a valid signature whose hex fields carry trailing whitespace: not a well-formed entry, so the offer is not well-formed metadata
            e = ref_openpgp.entry(s, B, headers=hdr)
            f = draw(st.sampled_from(["other_headers", "other_headers", "signature"]))
            e[f] = e[f] + draw(st.sampled_from(["\n", " ", "\r\n", "\t"]))
        elif state == "other_payload":
            e = ref_openpgp.entry(s, canon(ts), headers=hdr)
        else:
            e = ref_openpgp.entry(seeds[(i + 1) % n], B, headers=hdr)
        N["signatures"][pubs[i]] = e
    if flaw == "junk_entry":
        N["signatures"][draw(G.strings)] = draw(GE.JUNK_VALUES)
    if flaw in ("none", "version", "trusted_sigs") and draw(st.booleans()):
        # harmless extra entries under non-key names (well-formed values keep the offer well-formed metadata)
        for k in draw(st.lists(st.one_of(G.strings, st.sampled_from(["cl\u00e9-1", "\u952e", "k\u00e4se", "\U0001f511"])), max_size=2)):
            N["signatures"].setdefault(k, {"other_headers": "04", "signature": "ab" * 64})
    if flaw == "spelling_dups":
        for i in signers:
            if pubs[i] in N["signatures"]:
                for v in draw(st.lists(st.sampled_from(GE.key_variants(pubs[i])), min_size=1, max_size=3, unique=True)):
                    N["signatures"][v] = copy.deepcopy(N["signatures"][pubs[i]])
    # T is signed by somebody too (irrelevant to the rule, but realistic)
    if draw(st.booleans()):
        GM.sign_envelope(T, [seeds[i] for i in KT[:1]], True)
    return {"T": T, "N": N, "flaw": flaw, "seeds": [x.hex() for x in seeds]}


def conjuncts(T, N):
    """Truth of each conjunct of the rule (None = not evaluable), for labelling only."""
    c = {}
    c["wf_T"] = ref_schema.schema(T)[0]
    c["wf_N"] = ref_schema.schema(N)[0]
    if c["wf_T"] != "yes" or c["wf_N"] != "yes":
        return c
    ts, ns = T["signed"], N["signed"]
    c["types"] = ts["type"] == "root" and ns["type"] == "root"
    c["rootdeleg"] = "root" in ts["delegations"] and "root" in ns["delegations"]
    c["version"] = ns["version"] == ts["version"] + 1
    if c["rootdeleg"]:
        r = ts["delegations"]["root"]
        c["trusted_rule"] = RV.count_bounds(N, r["pubkeys"], True)[0] >= r["threshold"]
        r = ns["delegations"]["root"]
        c["own_rule"] = RV.count_bounds(N, r["pubkeys"], True)[0] >= r["threshold"]
    return c


def _compare(T, N, what):
    expect = RV.root_update(T, N)
    observed, exc = RV.outcome(A.verify_root, T, N)
    bad = RV.mismatch(expect, observed)
    if bad:
        raise Violation("verify_root on a related input presented after an earlier call (%s): %s" % (what, bad),
                        bucket=("false accept" if observed == "accept" else "false reject/class " + observed)
                        + " verify_root (history)")
    return 1


def history_probes(T, N):
    """Related offers right after the main call (same process): the offer object changed in place; the same
    signatures on changed content; ==-equal retyping; a trusted root with the same identity fields but other keys."""
    n = 0
    if type(N.get("signed")) is not dict or type(T.get("signed")) is not dict:
        return 0
    same = copy.deepcopy(N)
    RV.outcome(A.verify_root, T, same)
    same["signed"]["verif-probe"] = [1]
    n += _compare(T, same, "the SAME offered object changed in place")
    forged = copy.deepcopy(N)
    RV.outcome(A.verify_root, T, copy.deepcopy(N))
    d = forged["signed"].get("delegations")
    if type(d) is dict and type(d.get("key_mgr")) is dict and type(d["key_mgr"].get("pubkeys")) is list:
        d["key_mgr"]["pubkeys"] = ["00" * 32]
    else:
        forged["signed"]["verif-probe"] = 2
    n += _compare(T, forged, "signature entries copied verbatim onto different content")
    # across functions: verify_root on X (whatever the outcome), X["signed"] edited in place, then verify_signable / verify_delegation on X
    X = copy.deepcopy(N)
    RV.outcome(A.verify_root, copy.deepcopy(T), X)
    X["signed"]["verif-probe"] = {"edited": "in place"}
    rule = T["signed"].get("delegations", {}).get("root") if isinstance(T["signed"].get("delegations"), dict) else None
    if isinstance(rule, dict) and RV.threshold_args_ok(X, rule.get("pubkeys"), rule.get("threshold")):
        exp = RV.signable(X, rule["pubkeys"], rule["threshold"], True)
        o = RV.outcome(A.verify_signable, X, rule["pubkeys"], rule["threshold"], gpg=True)[0]
        bad = RV.mismatch(exp, o)
        if bad:
            raise Violation("verify_signable on an offer that verify_root had just examined and whose signed part was then edited in place: %s"
                            % bad, bucket="false accept verify_root (history)" if o == "accept" else "false reject (history)")
        n += 1
    # trusted root with the same type/version/timestamp but a different root rule
    T2 = copy.deepcopy(T)
    d = T2["signed"].get("delegations")
    if type(d) is dict and type(d.get("root")) is dict and type(d["root"].get("pubkeys")) is list:
        RV.outcome(A.verify_root, T, copy.deepcopy(N))
        d["root"]["pubkeys"] = [keys.pub_hex(keys.POOL[15])]
        d["root"]["threshold"] = 1
        n += _compare(T2, copy.deepcopy(N), "trusted root with the same type/version/timestamp but another root rule")
    return n


def cross_mode_probe(T, N, seed_hexes):
    """History across verification modes and functions: the offer, signed with RAW ed25519 signatures by enough root keys, is
    first verified legitimately as a raw-mode delegation; then the same signature values are re-wrapped as OpenPGP-shaped
    entries and offered to verify_root, which must judge them as OpenPGP-mode signatures (they are not)."""
    if ref_schema.schema(T)[0] != "yes" or ref_schema.schema(N)[0] != "yes" or "root" not in T["signed"]["delegations"]:
        return 0
    by_pub = {keys.pub_hex(bytes.fromhex(h)): bytes.fromhex(h) for h in seed_hexes}
    rule = T["signed"]["delegations"]["root"]
    signers = [by_pub[p] for p in rule["pubkeys"] if p in by_pub]
    own = N["signed"]["delegations"].get("root", {"pubkeys": []})
    signers += [by_pub[p] for p in own["pubkeys"] if p in by_pub and by_pub[p] not in signers]
    if not signers:
        return 0
    B = canon(N["signed"])
    raw = {"signatures": {keys.pub_hex(x): {"signature": keys.sign_raw(x, B).hex()} for x in signers}, "signed": copy.deepcopy(N["signed"])}
    RV.outcome(A.verify_delegation, "root", raw, copy.deepcopy(T), gpg=False)
    RV.outcome(A.verify_signable, raw, rule["pubkeys"], rule["threshold"], gpg=False)
    fake = {"signatures": {k: {"other_headers": "04001608", "signature": v["signature"]} for k, v in raw["signatures"].items()},
            "signed": copy.deepcopy(N["signed"])}
    RV.outcome(A.verify_signable, copy.deepcopy(fake), rule["pubkeys"], rule["threshold"], gpg=False)
    return _compare(copy.deepcopy(T), fake, "raw signatures, verified in raw mode first, re-wrapped as OpenPGP-shaped entries")


def check_pair(case):
    T, N = case["T"], case["N"]
    t0, n0 = copy.deepcopy(T), copy.deepcopy(N)
    expect = RV.root_update(T, N)
    observed, exc = RV.outcome(A.verify_root, T, N)
    bad = RV.mismatch(expect, observed)
    if bad:
        raise Violation("verify_root: %s [flaw=%s] %s" % (bad, case["flaw"], str(exc)[:120]),
                        bucket=("false accept" if observed == "accept" else "false reject/class " + observed)
                        + " verify_root")
    probes = history_probes(t0, n0)
    probes += cross_mode_probe(t0, n0, case.get("seeds", []))
    if expect.kind == "reject":
        probes += hostile.never_accepts(lambda: (lambda t=copy.deepcopy(t0), n=copy.deepcopy(n0): A.verify_root(t, n)),
                                        "verify_root", expect.why)
    c = conjuncts(t0, n0)
    false_ones = [k for k, v in c.items() if v is False or v == "no"]
    rotated = (c.get("rootdeleg") and T["signed"]["delegations"]["root"]["pubkeys"]
               != N["signed"]["delegations"]["root"]["pubkeys"])
    nontrivial = len(false_ones) == 1 or (not false_ones and expect.kind == "accept" and rotated)
    labs = ["flaw=" + case["flaw"], "expect=" + expect.kind, "observed=" + observed]
    labs += ["only-false=" + false_ones[0]] if len(false_ones) == 1 else []
    if expect.kind == "accept":
        labs.append("accept:rotated" if rotated else "accept:same-keys")
    return {"nontrivial": bool(nontrivial), "labels": labs, "gray": expect.kind == "gray",
            "count": {"history_probes": probes}}


@st.composite
def _config_cases(draw):
    calls = []
    for _ in range(draw(st.integers(3, 5))):
        c = draw(root_pairs())
        calls.append(["verify_root", c["T"], c["N"]])
    return {"calls": calls, "config": draw(configrun.configs)}


def check_config(case):
    verdicts, labels, count = cfgunit.config_probe(case["calls"], "iff", case["config"])
    return {"nontrivial": len(set(verdicts)) > 1, "labels": labels, "count": count}


def _interrupted_sweep_cases():
    from props import C12
    return C12._sweep_cases().map(lambda c: dict(c, entry='verify_root', kind=c["kind"] if c["kind"] in ['invalid', 'valid', 'unauthorized'] else 'invalid'))


def check_interrupted_sweep(case):
    from props import C12
    return C12.check_fault_sweep(case)


UNITS = [
    Unit("interrupted_sweep", check_interrupted_sweep, strategy=_interrupted_sweep_cases, quick=18, thorough=500, shards_quick=3,
         doc="every line event and every C-level call of one verify_root interrupted once on a fresh envelope, each followed by a normal retry of the same envelope"),
    Unit("config", check_config, strategy=_config_cases, quick=96, thorough=600, shards_quick=16, shrink=False,
         doc="the rule holds in fresh interpreters under drawn configurations and discovered environment variables"),
    Unit("pairs", check_pair, essential_min=0.01, strategy=root_pairs, quick=1500, thorough=60000,
         essential=["only-false=version", "only-false=trusted_rule", "only-false=own_rule", "only-false=types",
                    "only-false=rootdeleg", "accept:rotated", "only-false=wf_N", "only-false=wf_T"],
         doc="verify_root verdict and error class == independent root-update rule, both directions"),
    _interfere.unit_after(PROPERTY, 'pairs', quick=150, thorough=6000),
    _interrupt.unit_interrupted(PROPERTY, 'pairs', quick=12, thorough=300, max_points=50, shards_quick=12,
                                filter_case=lambda c: c["flaw"] != "many_one_short"),
    _threaded.unit_threads(PROPERTY),
    _clicheck.unit_cli(),
    cfgunit.unit_under_clocks(PROPERTY, 'pairs'),
]
