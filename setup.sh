#!/bin/bash
# MANIFEST.setup_cmd: offline bootstrap.  Everything is built from files on disk.
set -e
cd "$(dirname "$0")"
PY=/venv/bin/python
WHEELS=/opt/veriftools/wheels
if ! $PY -c "import hypothesis" 2>/dev/null; then
  /venv/bin/pip install --no-index --find-links $WHEELS hypothesis
fi
# atheris (coverage-guided tier) lives beside the framework, never in /venv
if ! PYTHONPATH=.deps $PY -c "import atheris" 2>/dev/null; then
  /venv/bin/pip install --no-index --find-links $WHEELS --target .deps atheris >/dev/null 2>&1 \
    || echo "setup: atheris not installable; coverage-guided units will report themselves skipped"
fi
$PY -c "import hypothesis, cryptography; print('setup ok: hypothesis', hypothesis.__version__, 'cryptography', cryptography.__version__)"
mkdir -p evidence out
