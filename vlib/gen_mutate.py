"""Mutation engine: for a JSON document and every JSON path in it - delete, replace by each kind of
value, boundary edits of the value's own grammar, duplication, extra fields.

A mutation is plain data: {"path": [...], "op": <name>, "arg": <int>}.  apply(doc, mut) returns the
mutated deep copy (or None if the op does not apply at that node).  all_mutations(doc) enumerates the
complete single-mutation neighbourhood."""
import copy
import math

from . import gen_json as G, keys

VALID_KEY = keys.pub_hex(keys.POOL[2])
VALID_SIG = "ab" * 64

REPLACEMENTS = [
    None, True, False, 0, 1, -1, 2 ** 70, 1.5, 2.0, math.inf, -math.inf, math.nan, "", "text", VALID_KEY,
    VALID_KEY.upper(), VALID_SIG, [], [1], [VALID_KEY], {}, {"a": 1}, {"signatures": {}, "signed": {}},
    "2020-01-01T00:00:00Z", "root", "key_mgr", {"pubkeys": [], "threshold": 1}, {"signature": VALID_SIG}, 10 ** 30,
    "1", [[]], {"": {}}, 1e300, -0.0,
    # length-preserving type confusion: containers whose len() equals a grammar length
    ["a"] * 40, ["a"] * 64, ["a"] * 128, {"k%02d" % i: 0 for i in range(40)}, {"k%02d" % i: 0 for i in range(64)},
    10 ** 400, -(10 ** 400), 2 ** 63, 1e22, 2.5e-300,
    # names of roles / metadata types that exist around the library but are not supported delegating-metadata types
    "pkg_mgr", "channeler", "repodata_verify", "root.json", "Root", "timestamp", "snapshot", "targets",
]

STR_EDITS = ["drop_last", "append0", "append_space", "prepend_space", "upper", "append_nl", "fullwidth_last", "append_nul",
             "double", "empty", "drop_first", "swapcase_first_letter"]
TIME_EDITS = ["month13", "day32", "hour25", "min60", "noZ", "offset", "space_for_T", "lower", "feb30", "short_year",
              "fraction", "date_only", "trailing_junk", "sec60", "year0", "unpadded", "underscore_for_T", "newline_for_T", "week_date",
              "dot_seconds", "offset_before_Z", "ordinal_date", "comma_fraction", "fullwidth_digit", "offset_nocolon", "offset_neg_zero",
              "offset_seconds", "no_seconds", "date_Z", "basic_format"]
INT_EDITS = ["minus1", "plus1", "zero", "neg", "as_float", "as_str", "as_true", "plus_half", "huge", "as_list"]
LIST_EDITS = ["empty", "dup_first", "append_junk", "append_upper_first", "reverse", "drop_last", "append_none",
              "dup_first_variant", "nest", "dup_last_at_front", "dup_first_adjacent", "dup_middle_at_end"]
DICT_EDITS = ["empty", "extra_field", "dup_key_space", "dup_key_upper", "drop_first", "extra_none_field", "to_list"]

OPS = (["delete"] + ["replace:%d" % i for i in range(len(REPLACEMENTS))] + ["str:" + e for e in STR_EDITS]
       + ["time:" + e for e in TIME_EDITS] + ["int:" + e for e in INT_EDITS] + ["list:" + e for e in LIST_EDITS]
       + ["dict:" + e for e in DICT_EDITS])


def _looks_like_time(s):
    return len(s) == 20 and s[4] == "-" and s[10] == "T" and s.endswith("Z")


def _edit(node, op):
    kind, _, e = op.partition(":")
    if kind == "str" and type(node) is str:
        if e == "drop_last":
            return node[:-1]
        if e == "drop_first":
            return node[1:]
        if e == "append0":
            return node + "0"
        if e == "append_space":
            return node + " "
        if e == "prepend_space":
            return " " + node
        if e == "upper":
            return node.upper()
        if e == "append_nl":
            return node + "\n"
        if e == "append_nul":
            return node + "\x00"
        if e == "double":
            return node + node
        if e == "empty":
            return ""
        if e == "fullwidth_last" and node and node[-1] in "0123456789":
            return node[:-1] + chr(0xFF10 + int(node[-1]))
        if e == "swapcase_first_letter":
            for i, c in enumerate(node):
                if c.isalpha():
                    return node[:i] + c.swapcase() + node[i + 1:]
        return None
    if kind == "time" and type(node) is str and _looks_like_time(node):
        y, mo, d, h, mi, s = node[0:4], node[5:7], node[8:10], node[11:13], node[14:16], node[17:19]
        if not all(x.isascii() and x.isdigit() for x in (y, mo, d, h, mi, s)):
            return None     # already edited by an earlier mutation
        f = lambda y=y, mo=mo, d=d, h=h, mi=mi, s=s, T="T", Z="Z": "%s-%s-%s%s%s:%s:%s%s" % (y, mo, d, T, h, mi, s, Z)
        return {"month13": f(mo="13"), "day32": f(d="32"), "hour25": f(h="25"), "min60": f(mi="60"), "noZ": f(Z=""),
                "offset": f(Z="+00:00"), "space_for_T": f(T=" "), "lower": f(T="t", Z="z"), "feb30": f(mo="02", d="30"),
                "short_year": node[1:], "fraction": f(s=s + ".5"), "date_only": node[:10], "trailing_junk": node + "x",
                "sec60": f(s="60"), "year0": f(y="0000"), "underscore_for_T": f(T="_"), "newline_for_T": f(T="\n"),
                "week_date": "%s-W28-2T%s:%s:%sZ" % (y, h, mi, s), "dot_seconds": "%s-%s-%sT%s:%s.%sZ" % (y, mo, d, h, mi, s),
                "offset_before_Z": "%s-%s-%sT%s+01:00Z" % (y, mo, d, h), "ordinal_date": "%s-%s%sT%s:%s:%sZZ"[:0] + "%s-194T%s:%s:%s.0Z" % (y, h, mi, s),
                "comma_fraction": "%s-%s-%sT%s:%s:%s,5Z"[:0] + "%s-%s-%sT%s:%s,%sZ" % (y, mo, d, h, mi, s), "unpadded": "%d-%d-%dT%d:%d:%dZ" % tuple(
                    int(x) for x in (y, mo, d, h, mi, s)), "fullwidth_digit": f(mo=chr(0xFF10 + int(mo[0])) + mo[1]),
                "offset_nocolon": f(Z="+0000"), "offset_neg_zero": f(Z="-00:00"), "offset_seconds": f(Z="+00:00:00"),
                "no_seconds": "%s-%s-%sT%s:%sZ" % (y, mo, d, h, mi), "date_Z": "%s-%s-%sZ" % (y, mo, d),
                "basic_format": "%s%s%sT%s%s%sZ" % (y, mo, d, h, mi, s)}.get(e)
    if kind == "int" and type(node) is int:
        return {"minus1": node - 1, "plus1": node + 1, "zero": 0, "neg": -node, "as_float": float(node) if abs(node) < 2 ** 53 else None,
                "as_str": str(node), "as_true": True, "plus_half": node + 0.5 if abs(node) < 2 ** 50 else None,
                "huge": node + 2 ** 64, "as_list": [node]}.get(e)
    if kind == "list" and type(node) is list:
        if e == "empty":
            return []
        if e == "append_junk":
            return node + ["junk"]
        if e == "append_none":
            return node + [None]
        if e == "reverse":
            return list(reversed(node)) if len(node) > 1 else None
        if e == "nest":
            return [node]
        if not node:
            return None
        if e == "dup_first":
            return node + [copy.deepcopy(node[0])]
        if e == "dup_last_at_front":
            return [copy.deepcopy(node[-1])] + node
        if e == "dup_first_adjacent":
            return [copy.deepcopy(node[0])] + node
        if e == "dup_middle_at_end":
            return node + [copy.deepcopy(node[len(node) // 2])]
        if e == "drop_last":
            return node[:-1]
        if e == "append_upper_first" and type(node[0]) is str:
            return node + [node[0].upper()]
        if e == "dup_first_variant" and type(node[0]) is str:
            return node + [node[0] + " "]
        return None
    if kind == "dict" and type(node) is dict:
        if e == "empty":
            return {}
        if e == "extra_field":
            return dict(node, **{"verif-extra": 1})
        if e == "extra_none_field":
            return dict(node, **{"": None})
        if e == "to_list":
            return list(node.values())
        if not node:
            return None
        k = next(iter(node))
        if e == "dup_key_space":
            return dict(node, **{k + " ": copy.deepcopy(node[k])})
        if e == "dup_key_upper":
            return dict(node, **{k.upper(): copy.deepcopy(node[k])}) if k.upper() != k else None
        if e == "drop_first":
            return {a: b for a, b in node.items() if a != k}
    return None


def own_ops(node):
    """the edits of the node's own kind (boundary edits of its grammar / structure), as opposed to the type-confusing replacements"""
    if type(node) is int and type(node) is not bool:
        return ["int:" + e for e in INT_EDITS]
    if type(node) is str:
        return (["time:" + e for e in TIME_EDITS] + ["str:" + e for e in STR_EDITS[:6]]) if _looks_like_time(node) else ["str:" + e for e in STR_EDITS]
    if type(node) is list:
        return ["list:" + e for e in LIST_EDITS]
    if type(node) is dict:
        return ["dict:" + e for e in DICT_EDITS]
    return []


INAPPLICABLE = type("Inapplicable", (), {"__repr__": lambda self: "INAPPLICABLE"})()


def apply(doc, mut):
    """The mutated deep copy, or INAPPLICABLE if the op does not apply at that node."""
    path, op = tuple(mut["path"]), mut["op"]
    try:
        node = G.get_path(doc, path)
    except (KeyError, IndexError, TypeError):
        return INAPPLICABLE
    if op == "delete":
        if not path:
            return INAPPLICABLE
        return G.del_path(doc, path)
    if op.startswith("replace:"):
        return G.set_path(doc, path, copy.deepcopy(REPLACEMENTS[int(op[8:])]))
    new = _edit(node, op)
    if new is None:
        return INAPPLICABLE
    return G.set_path(doc, path, new)


def all_mutations(doc, ops=None):
    for path in G.paths(doc):
        for op in (ops or OPS):
            m = {"path": list(path), "op": op}
            r = apply(doc, m)
            if r is not INAPPLICABLE:
                yield m, r


def op_kind(op):
    k = op.partition(":")[0]
    return {"delete": "deletion", "replace": "type-confusion", "str": "boundary", "time": "boundary", "int": "boundary",
            "list": "duplication/list", "dict": "extra-fields/dict"}[k]
