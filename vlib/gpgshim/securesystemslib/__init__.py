"""Minimal stand-in for securesystemslib 0.13.1 (absent from the sandbox and its wheelhouse).

Only what conda-content-trust's GPG signing path touches is provided:
  securesystemslib.formats.{GPG_ED25519_PUBKEY_METHOD_STRING, GPG_HASH_ALGORITHM_STRING}
  securesystemslib.gpg.functions.{create_signature, export_pubkey}
  securesystemslib.gpg.exceptions.{CommandError, KeyNotFoundError}
create_signature / export_pubkey drive the real `gpg` binary and transcribe its OpenPGP packets the way
securesystemslib does (hashed area -> other_headers, the two EdDSA MPIs left-padded to 32 bytes -> signature,
public-key packet -> q).  The harness validates every transcription against its own RFC 4880 reference before
blaming the library for anything."""
__version__ = "0.13.1+verif.shim"
