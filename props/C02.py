"""C02 - threshold completeness: enough valid authorized signers always suffice."""
import copy
import io
import json
import os
import sys
import warnings

from hypothesis import strategies as st

from conda_content_trust import authentication as A, common as C, signing as S

from vlib import configrun, gen_envelope as GE, gen_json as G, gen_metadata as GM, keys, ref_verify as RV
from vlib.ref_canon import canon
from vlib.runner import REPO, Unit, Violation
from vlib import clicheck as _clicheck
from vlib import threaded as _threaded
from vlib import interfere as _interfere, interrupt as _interrupt

PROPERTY = "C02"
LEVEL = "exploration"
RULE = ("Envelopes whose must-count signers meet the threshold by construction (threshold = number of valid "
        "authorized signers, or one less), decorated with unauthorized / invalid / malformed / junk entries "
        "(any JSON strings as keys incl. non-ASCII and lone surrogates) in a drawn order; signers: the library's "
        "sign_signable, cryptography raw, pure-Python RFC 8032 with a chosen nonce, reference OpenPGP signer; "
        "stdout replaced by a strict TextIOWrapper of a drawn encoding; same through verify_delegation and "
        "verify_root; child interpreters over pre-import x stdout-encoding x hash-seed x locale x cwd; shipped "
        "fixtures. Oracle: the call returns. Non-trivial = >=2 signers needed, or >=1 non-counting entry present, "
        "or a non-library signer, or a non-UTF-8 stdout.")
ASSUMPTIONS = ["cryptography's raw Ed25519 is the oracle primitive (cross-checked in C19)",
               "locales available: C, C.UTF-8, POSIX"]

ENCODINGS = ["utf-8", "ascii", "latin-1", "cp1252", "utf-16"]


class _StrictStdout:
    def __init__(self, enc):
        self.enc = enc

    def __enter__(self):
        self.real = sys.stdout
        sys.stdout = io.TextIOWrapper(io.BytesIO(), encoding=self.enc, errors="strict")
        return self

    def __exit__(self, *a):
        try:
            sys.stdout.flush()
        except Exception:
            pass
        sys.stdout = self.real


FLOOD = [0, 0, 0, 0, 0, 0, 0, 63, 64, 65, 130, 600]


@st.composite
def _accepting(draw):
    case = draw(GE.envelopes(force_lower=draw(st.sampled_from([0, 0, -1]))))
    case["enc"] = draw(st.sampled_from(ENCODINGS))
    case["warn_error"] = draw(st.booleans())
    # a flood of additional junk entries, placed first / last / sorted into the map
    n = draw(st.sampled_from(FLOOD))
    case["flood"] = n
    case["flood_kind"] = draw(st.sampled_from(["junk-keys-first", "hex-keys-first", "last", "sorted"]))
    return case


def _flooded(case, env):
    n = case.get("flood", 0)
    if not n:
        return env
    kind = case["flood_kind"]
    extra = {}
    for i in range(n):
        k = ("%064x" % i) if kind == "hex-keys-first" else " junk-%04d" % i
        extra[k] = {"signature": "%0128x" % i} if i % 2 else i
    extra = {k: v for k, v in extra.items() if k not in env["signatures"]}
    if kind == "last":
        sigs = dict(env["signatures"], **extra)
    else:
        sigs = dict(extra, **env["signatures"])
    if kind == "sorted":
        sigs = {k: sigs[k] for k in sorted(sigs)}
    return {"signatures": sigs, "signed": env["signed"]}


class _WarningsAsErrors:
    def __init__(self, on):
        self.on = on

    def __enter__(self):
        self.cm = warnings.catch_warnings()
        self.cm.__enter__()
        if self.on:
            warnings.simplefilter("error")

    def __exit__(self, *a):
        self.cm.__exit__(*a)


def _nontrivial(case, lo):
    noncount = len(case["sigs"]) - lo
    return (case["threshold"] >= 2 or noncount >= 1 or any(l == "valid_nonce" for _, _, l in case["sigs"])
            or case.get("enc", "utf-8") != "utf-8")


def check_signable(case):
    env = _flooded(case, GE.to_envelope(case))
    expect = RV.signable(env, case["authorized"], case["threshold"], case["gpg"])
    # history: the caller's key list object (in real use: the pubkeys list inside the trusted metadata) has just been used in a
    # verification that FAILED although some signatures were good; the list must come out of that untouched
    auth_obj = list(case["authorized"])
    with _StrictStdout(case["enc"]):
        RV.outcome(A.verify_signable, copy.deepcopy(env), auth_obj, case["threshold"] + 3, gpg=case["gpg"])
    if auth_obj != case["authorized"]:
        raise Violation("a failed verify_signable call modified the caller's list of authorized keys", bucket="argument mutated by verify_signable")
    case = dict(case, authorized=auth_obj)
    with _StrictStdout(case["enc"]), _WarningsAsErrors(case.get("warn_error")):
        observed, exc = RV.outcome(A.verify_signable, env, case["authorized"], case["threshold"], gpg=case["gpg"])
    lo, up = RV.count_bounds(env, case["authorized"], case["gpg"])
    if expect.kind == "accept" and observed != "accept":
        raise Violation("verify_signable raised %s (%s) although %d valid authorized signers meet threshold %d; "
                        "entries %s, stdout %s, %d extra junk entries (%s), warnings-as-errors=%s"
                        % (observed, str(exc)[:120], lo, case["threshold"], GE.labels(case), case["enc"],
                           case.get("flood", 0), case.get("flood_kind"), case.get("warn_error")),
                        bucket="false reject verify_signable " + observed)
    labs = GE.labels(case) + ["gpg" if case["gpg"] else "raw", "enc=" + case["enc"],
                              "must-accept" if expect.kind == "accept" else "other",
                              "flood>64" if case.get("flood", 0) > 64 else "flood<=64",
                              "warnings=error" if case.get("warn_error") else "warnings=default"]
    return {"nontrivial": expect.kind == "accept" and _nontrivial(case, lo), "labels": labs}


# ---- the library's own signer -------------------------------------------------------------------

@st.composite
def _lib_cases(draw):
    seeds = draw(keys.seed_lists(1, 5))
    return {"payload": draw(G.payloads), "seeds": [s.hex() for s in seeds],
            "order": draw(st.permutations(list(range(len(seeds))))),
            "junk": draw(st.lists(st.tuples(G.strings, GE.JUNK_VALUES), max_size=3)),
            "enc": draw(st.sampled_from(ENCODINGS))}


def check_library(case):
    seeds = [bytes.fromhex(s) for s in case["seeds"]]
    env = S.wrap_as_signable(case["payload"])
    for i in case["order"]:
        S.sign_signable(env, C.PrivateKey.from_bytes(seeds[i]))
    for k, v in case["junk"]:
        env["signatures"].setdefault(k, v)
    pubs = [keys.pub_hex(s) for s in seeds]
    for t in range(1, len(seeds) + 1):
        with _StrictStdout(case["enc"]):
            observed, exc = RV.outcome(A.verify_signable, env, pubs, t)
        if observed != "accept":
            raise Violation("envelope signed by the library's sign_signable with %d keys rejected for threshold %d: "
                            "%s %s" % (len(seeds), t, observed, str(exc)[:100]),
                            bucket="library signature rejected " + observed)
    # sign -> edit the signed object in place -> sign again: what the library produced must verify, also after
    # the envelope went through a file / JSON round trip
    from vlib import related
    if related.inplace_mutate(env["signed"]):
        for i in case["order"]:
            S.sign_signable(env, C.PrivateKey.from_bytes(seeds[i]))
        for e2, how in ((env, "in memory"), (json.loads(C.canonserialize(env)), "after a JSON round trip")):
            with _StrictStdout(case["enc"]):
                observed, exc = RV.outcome(A.verify_signable, e2, pubs, len(seeds))
            if observed != "accept":
                raise Violation("envelope re-signed by the library after an in-place edit is rejected %s: %s %s"
                                % (how, observed, str(exc)[:100]), bucket="re-signed envelope rejected " + observed)
    # and through a delegation
    T = GM.wrap(GM.signed_part("key_mgr", {"pkg_mgr": {"pubkeys": pubs, "threshold": len(pubs)}}, version=1))
    with _StrictStdout(case["enc"]):
        observed, exc = RV.outcome(A.verify_delegation, "pkg_mgr", env, T)
    expect = RV.delegation("pkg_mgr", env, T, False)
    if expect.kind == "accept" and observed != "accept":
        raise Violation("verify_delegation rejected library-signed payload: %s %s" % (observed, str(exc)[:100]),
                        bucket="library signature rejected via delegation " + observed)
    return {"nontrivial": len(seeds) >= 2 or bool(case["junk"]) or case["enc"] != "utf-8",
            "labels": ["signers=%d" % len(seeds), "junk=%d" % len(case["junk"]), "enc=" + case["enc"]]}


# ---- through verify_delegation and verify_root -----------------------------------------------------

WELL_FORMED_JUNK = st.one_of(
    st.just({"signature": "00" * 64}), st.just({"other_headers": "04", "signature": "ab" * 64}),
    st.just({"other_headers": "04ff", "signature": "ab" * 64, "see_also": "cd" * 20}))


@st.composite
def _chain_cases(draw):
    seeds = draw(keys.seed_lists(2, 5))
    n = len(seeds)
    old_mask = draw(st.integers(1, 2 ** n - 1))
    new_mask = draw(st.integers(1, 2 ** n - 1))
    old_keys = GM.subset_by_mask(seeds, old_mask)
    new_keys = GM.subset_by_mask(seeds, new_mask)
    old_thr = draw(st.sampled_from([1, len(old_keys), max(1, len(old_keys) - 1)]))
    new_thr = draw(st.sampled_from([1, len(new_keys), max(1, len(new_keys) - 1)]))
    # signers: at least old_thr of the old keys and new_thr of the new keys
    signers = set(draw(st.permutations(old_keys))[:old_thr]) | set(draw(st.permutations(new_keys))[:new_thr])
    extra = draw(st.lists(st.sampled_from(seeds), max_size=2))
    return {"seeds": [s.hex() for s in seeds], "old_mask": old_mask, "new_mask": new_mask, "old_thr": old_thr,
            "new_thr": new_thr, "signers": sorted(s.hex() for s in signers | set(extra)),
            "version": draw(GM.versions), "nonce": draw(st.one_of(st.none(), st.integers(1, 2 ** 200))),
            "headers": draw(GE.HEADERS), "junk": draw(st.lists(st.tuples(G.strings, WELL_FORMED_JUNK), max_size=3)),
            "extra_signed": draw(st.dictionaries(G.strings, G.json_values(4), max_size=2)),
            "enc": draw(st.sampled_from(ENCODINGS))}


def build_chain(case):
    seeds = [bytes.fromhex(s) for s in case["seeds"]]
    old = [keys.pub_hex(s) for s in GM.subset_by_mask(seeds, case["old_mask"])]
    new = [keys.pub_hex(s) for s in GM.subset_by_mask(seeds, case["new_mask"])]
    T = GM.wrap(GM.signed_part("root", {"root": {"pubkeys": old, "threshold": case["old_thr"]},
                                        "key_mgr": {"pubkeys": new[:1], "threshold": 1}}, version=case["version"]))
    N = GM.wrap(GM.signed_part("root", {"root": {"pubkeys": new, "threshold": case["new_thr"]},
                                        "key_mgr": {"pubkeys": old[:1], "threshold": 1}},
                               version=case["version"] + 1, extra=case["extra_signed"]))
    signer = keys.make_nonce_signer(case["nonce"]) if case["nonce"] else None
    GM.sign_envelope(N, [bytes.fromhex(s) for s in case["signers"]], True, headers=case["headers"], signer=signer)
    for k, v in case["junk"]:
        N["signatures"].setdefault(k, v)
    return T, N


def check_root(case):
    T, N = build_chain(case)
    expect = RV.root_update(T, N)
    with _StrictStdout(case["enc"]):
        observed, exc = RV.outcome(A.verify_root, T, N)
    if expect.kind == "accept" and observed != "accept":
        raise Violation("verify_root rejected a properly signed successor: %s %s" % (observed, str(exc)[:160]),
                        bucket="false reject verify_root " + observed)
    if expect.kind != "accept":
        raise Violation("harness: constructed chain is not accept-worthy: %r" % expect, bucket="harness")
    # the same envelope as a delegation of role root (raw mode must not be needed: gpg=True)
    with _StrictStdout(case["enc"]):
        obs2, exc2 = RV.outcome(A.verify_delegation, "root", N, T, gpg=True)
    exp2 = RV.delegation("root", N, T, True)
    if exp2.kind == "accept" and obs2 != "accept":
        raise Violation("verify_delegation('root', gpg=True) rejected a properly signed root: %s %s"
                        % (obs2, str(exc2)[:160]), bucket="false reject verify_delegation " + obs2)
    return {"nontrivial": True, "labels": ["rotated" if case["old_mask"] != case["new_mask"] else "same-keys",
                                           "junk=%d" % len(case["junk"]), "nonce-signer" if case["nonce"] else "det-signer",
                                           "enc=" + case["enc"], "thr=%d/%d" % (case["old_thr"], case["new_thr"])]}


# ---- shipped fixtures --------------------------------------------------------------------------------

def enum_fixtures(tier):
    td = "tests/testdata/"
    for a, b in ((1, 2), (2, 3)):
        yield {"kind": "root", "trusted": td + "%d.root.json" % a, "untrusted": td + "%d.root.json" % b}
    for i in (1, 2, 3):
        yield {"kind": "delegation", "role": "key_mgr", "trusted": td + "%d.root.json" % i, "untrusted": td + "key_mgr.json"}
    yield {"kind": "root", "trusted": "demo/1.root.json", "untrusted": "demo/2.root.json"}
    for i in (1, 2):
        yield {"kind": "delegation", "role": "key_mgr", "trusted": "demo/%d.root.json" % i, "untrusted": "demo/key_mgr.json"}
    yield {"kind": "repodata", "file": td + "repodata_short_signed_sample.json"}


def check_fixture(case):
    ld = lambda p: C.load_metadata_from_file(os.path.join(REPO, p))
    n = 0
    if case["kind"] == "root":
        observed, exc = RV.outcome(A.verify_root, ld(case["trusted"]), ld(case["untrusted"]))
        if observed != "accept":
            raise Violation("shipped fixture chain %s -> %s rejected: %s %s" % (case["trusted"], case["untrusted"],
                                                                               observed, str(exc)[:100]),
                            bucket="fixture rejected")
    elif case["kind"] == "delegation":
        observed, exc = RV.outcome(A.verify_delegation, case["role"], ld(case["untrusted"]), ld(case["trusted"]))
        if observed != "accept":
            raise Violation("shipped fixture %s under %s rejected: %s %s" % (case["untrusted"], case["trusted"],
                                                                            observed, str(exc)[:100]),
                            bucket="fixture rejected")
    else:
        rd = ld(case["file"])
        arts = dict(rd.get("packages", {}))
        arts.update(rd.get("packages.conda", {}))
        for name, sigs in rd["signatures"].items():
            env = S.wrap_as_signable(arts[name])
            env["signatures"] = copy.deepcopy(sigs)
            observed, exc = RV.outcome(A.verify_signable, env, list(sigs), len(sigs))
            n += 1
            if observed != "accept":
                raise Violation("shipped signed repodata sample: signature of %s rejected: %s" % (name, observed),
                                bucket="fixture rejected")
    return {"nontrivial": True, "labels": [case["kind"]], "count": {"artifact_signatures": n}}


# ---- configurations ------------------------------------------------------------------------------------

@st.composite
def _config_cases(draw):
    calls = []
    for _ in range(draw(st.integers(3, 6))):
        c = draw(GE.envelopes(force_lower=0))
        calls.append(["verify_signable", GE.to_envelope(c), c["authorized"], c["threshold"], c["gpg"]])
    ch = draw(_chain_cases())
    T, N = build_chain(ch)
    calls.append(["verify_root", T, N])
    calls.append(["verify_delegation", "root", N, T, True])
    return {"calls": calls, "config": draw(configrun.configs)}


def check_config(case):
    want = []
    for c in case["calls"]:
        if c[0] == "verify_signable":
            e = RV.signable(c[1], c[2], c[3], c[4])
        elif c[0] == "verify_root":
            e = RV.root_update(c[1], c[2])
        else:
            e = RV.delegation(c[1], c[2], c[3], c[4])
        want.append(e.kind)
    got = configrun.run_child("calls", case["calls"], case["config"])
    if isinstance(got, dict):
        raise Violation("child interpreter failed under %r: %s" % (case["config"], got.get("stderr", "")[-300:]),
                        bucket="child failed")
    for i, (w, g) in enumerate(zip(want, got)):
        if w == "accept" and g != "accept":
            raise Violation("call %d (%s) must be accepted but gave %s under configuration %r"
                            % (i, case["calls"][i][0], g, case["config"]), bucket="configuration false reject " + g)
    cfg = case["config"]
    return {"nontrivial": True, "labels": ["preimport=%s" % ",".join(cfg["preimport"]), "ioenc=%s" % cfg["PYTHONIOENCODING"],
                                           "hashseed=%s" % cfg["PYTHONHASHSEED"], "lc=%s" % cfg["LC_ALL"]],
            "count": {"calls": len(want), "must_accept": want.count("accept")}}


def _interrupted_sweep_cases():
    from props import C12
    return C12._sweep_cases().map(lambda c: dict(c, entry='verify_signable', kind=c["kind"] if c["kind"] in ['valid'] else 'valid'))


def check_interrupted_sweep(case):
    from props import C12
    return C12.check_fault_sweep(case)


UNITS = [
    Unit("interrupted_sweep", check_interrupted_sweep, strategy=_interrupted_sweep_cases, quick=18, thorough=500, shards_quick=3,
         doc="every line event and every C-level call of one verify_signable interrupted once on a fresh envelope, each followed by a normal retry of the same envelope"),
    Unit("signable", check_signable, strategy=_accepting, quick=1200, thorough=40000, stdout="own",
         essential=["must-accept", "junk", "malformed", "unauthorized", "valid_nonce", "enc=ascii", "gpg", "raw",
                    "flood>64", "warnings=error"],
         doc="verify_signable returns whenever the must-count signers meet the threshold, under strict stdout encodings"),
    Unit("library", check_library, strategy=_lib_cases, quick=400, thorough=10000, stdout="own",
         doc="everything signed by wrap_as_signable/sign_signable verifies for every t <= signers"),
    Unit("root", check_root, strategy=_chain_cases, quick=400, thorough=12000, stdout="own",
         doc="properly signed successor roots (reference OpenPGP signer) are accepted by verify_root / verify_delegation"),
    Unit("fixtures", check_fixture, enumerate=enum_fixtures, exhaustive=True, shards_quick=1, shards_thorough=1,
         doc="signed fixtures shipped with the repository (tests/testdata, demo) still verify"),
    Unit("config", check_config, shrink=False, strategy=_config_cases, quick=24, thorough=400,
         doc="fresh interpreters: pre-imported modules x PYTHONIOENCODING x hash seed x locale x cwd"),
    _interfere.unit_after(PROPERTY, 'signable', quick=150, thorough=6000),
    _threaded.unit_threads(PROPERTY),
    _clicheck.unit_cli(),
]
