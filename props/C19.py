"""C19 - key material round-trips losslessly and matches RFC 8032."""
import os
import shutil
import tempfile

from hypothesis import strategies as st

from conda_content_trust import authentication as A, common as C, metadata_construction as MC, signing as S

from vlib import gen_pyvalues as GP, keys, ref_ed25519 as R4, ref_grammar as g
from vlib.ref_canon import canon
from vlib import cfgunit as _cfgunit
from vlib.runner import Unit, Violation
from vlib import editor as _editor
from vlib import interfere as _interfere, interrupt as _interrupt

PROPERTY = "C19"
LEVEL = "exploration"
RULE = ("32-byte seeds (Hypothesis binary(32) + RFC 8032 7.1 vectors + all-zero/all-ones/clamping-boundary seeds) x "
        "messages 0-1 KiB x generated conversion sequences over {bytes->object, hex->object, object->bytes, "
        "object->hex, bytes<->hex} for private and public keys; key files written by the library and by hand; pairs of "
        "seeds for the equivalence laws; malformed encodings (wrong length, str for bytes, upper-case / padded / odd / "
        "non-ASCII hex, non-strings). Oracle: pure-Python RFC 8032 (validated on the RFC vectors at start-up) for public "
        "keys and signatures; identity for round trips; TypeError/ValueError for malformed encodings. The same run "
        "cross-checks `cryptography`'s raw Ed25519 verify (the fast oracle of the other checks) against the pure-Python "
        "verifier on valid and corrupted signatures. Non-trivial = conversion sequence of >= 3 steps, or message "
        "non-empty, or two different seeds, or a malformed encoding that is one edit away from a valid one.")
ASSUMPTIONS = ["vlib/ref_ed25519.py implements RFC 8032 section 5.1 (checked against the section 7.1 vectors on every run)",
               "gen_keys/gen_and_write_keys draw from the OS RNG inside the library: those cases are checked for "
               "consistency of what was returned/written, and are not replayable from the case data"]

R4.self_test()

SPECIAL_SEEDS = [bytes(32), b"\xff" * 32, b"\x01" + bytes(31), bytes(31) + b"\x80", bytes(31) + b"\x7f",
                 b"\xf8" + bytes(30) + b"\x3f"] + [bytes.fromhex(v[0]) for v in R4.RFC8032_VECTORS]
seeds = st.one_of(st.binary(min_size=32, max_size=32), st.sampled_from(SPECIAL_SEEDS), keys.seeds)
messages = st.one_of(st.binary(max_size=64), st.binary(max_size=1024), st.just(b""))


def _lib(f, *a):
    try:
        return f(*a)
    except Exception as e:
        raise Violation("%s raised %s on well-formed key material: %s" % (getattr(f, "__qualname__", f), type(e).__name__,
                                                                           str(e)[:100]), bucket="raises on valid input")


# ---- unit 1 ---------------------------------------------------------------------------------------------

def check_derive_sign(case):
    seed, msg = case["seed"], case["msg"]
    priv = _lib(C.PrivateKey.from_bytes, seed)
    if _lib(C.PrivateKey.to_bytes, priv) != seed or _lib(C.PrivateKey.to_hex, priv) != seed.hex():
        raise Violation("private key does not round-trip through from_bytes/to_bytes/to_hex", bucket="private round trip")
    pub_obj = priv.public_key()
    ref_pub = R4.public_key(seed)
    if _lib(C.PublicKey.to_bytes, pub_obj) != ref_pub:
        raise Violation("derived public key differs from RFC 8032 for seed %s" % seed.hex(), bucket="public key derivation")
    if _lib(C.PublicKey.to_hex, pub_obj) != ref_pub.hex():
        raise Violation("PublicKey.to_hex differs from lower-case hex of the RFC 8032 public key", bucket="public hex")
    sig = priv.sign(msg)
    ref_sig = R4.sign(seed, msg)
    if sig != ref_sig:
        raise Violation("PrivateKey.sign differs from the RFC 8032 signature", bucket="signature differs")
    env = {"signatures": {}, "signed": {"m": msg.hex()}}
    S.sign_signable(env, priv)
    want = {ref_pub.hex(): {"signature": R4.sign(seed, canon(env["signed"])).hex()}}
    if env["signatures"] != want:
        raise Violation("sign_signable does not file the RFC 8032 signature under the RFC 8032 public key hex",
                        bucket="sign_signable filing")
    # library verification primitive accepts it, and rejects a corrupted one
    try:
        A.verify_signature(sig.hex(), C.PublicKey.from_bytes(ref_pub), msg)
    except Exception as e:
        raise Violation("verify_signature rejects an RFC 8032 signature: %s" % type(e).__name__, bucket="verify rejects")
    i = case["flip"] % 512
    bad = bytearray(sig)
    bad[i // 8] ^= 1 << (i % 8)
    bad = bytes(bad)
    ref_ok = R4.verify(ref_pub, msg, bad)
    fast_ok = keys.verify_raw(ref_pub.hex(), msg, bad)
    if ref_ok != fast_ok or not R4.verify(ref_pub, msg, sig) or not keys.verify_raw(ref_pub.hex(), msg, sig):
        raise Violation("harness: the two oracle verifiers disagree (pure-Python %s, cryptography %s)" % (ref_ok, fast_ok),
                        bucket="harness oracle disagreement")
    try:
        A.verify_signature(bad.hex(), C.PublicKey.from_bytes(ref_pub), msg)
        lib_ok = True
    except Exception:
        lib_ok = False
    if lib_ok != ref_ok:
        raise Violation("verify_signature verdict on a bit-flipped signature differs from RFC 8032", bucket="verify differs")
    return {"nontrivial": len(msg) > 0, "labels": ["special-seed" if seed in SPECIAL_SEEDS else "random-seed",
                                                    "msg=%s" % ("0" if not msg else "<=64" if len(msg) <= 64 else ">64")]}


# ---- unit 2: conversion sequences ---------------------------------------------------------------------------

OPS = ["b2o", "h2o", "o2b", "o2h", "b2h", "h2b"]


def check_conversions(case):
    seed, private = case["seed"], case["private"]
    cls = C.PrivateKey if private else C.PublicKey
    start = seed if private else R4.public_key(seed)
    rep, val = "b", start
    steps = 0
    for n in case["ops"]:
        valid = [o for o in OPS if o[0] == rep]
        op = valid[n % len(valid)]
        dst = op[2]
        steps += 1
        if op == "b2o":
            val = _lib(cls.from_bytes, val)
        elif op == "h2o":
            val = _lib(cls.from_hex, val)
        elif op == "o2b":
            val = _lib(cls.to_bytes, val)
        elif op == "o2h":
            val = _lib(cls.to_hex, val)
        elif op == "b2h":
            val = val.hex()
        elif op == "h2b":
            val = bytes.fromhex(val)
        rep = dst
        # invariants at every step
        as_bytes = val if rep == "b" else bytes.fromhex(val) if rep == "h" else _lib(cls.to_bytes, val)
        if as_bytes != start:
            raise Violation("after %d conversion steps (%s) the %s key value changed" % (
                steps, case["ops"], "private" if private else "public"), bucket="conversion changes value")
        if rep == "h" and not g.is_key(val):
            raise Violation("to_hex produced %r, not 64 lower-case hex characters" % (val,), bucket="hex spelling")
        if rep == "o":
            C.checkformat_key(val)
    # the same 32 bytes / hex used with the OTHER key class right afterwards (any 32 bytes are a valid seed and a
    # loadable raw public key): each class must hand back its own kind of object with exactly these bytes
    other = C.PublicKey if private else C.PrivateKey
    for conv, arg in ((other.from_hex, start.hex()), (other.from_bytes, start), (cls.from_hex, start.hex())):
        k = _lib(conv, arg)
        owner = other if conv.__self__ is other else cls
        want_private = owner is C.PrivateKey
        is_private = hasattr(k, "sign")
        if is_private != want_private:
            raise Violation("%s.%s returned a %s key object after the same value had been loaded with the other class"
                            % (owner.__name__, conv.__name__, "private" if is_private else "public"),
                            bucket="wrong key class returned")
        if _lib(owner.to_bytes, k) != start:
            raise Violation("%s round trip changed the value when the same hex is used for both key classes" % owner.__name__,
                            bucket="conversion changes value")
    return {"nontrivial": steps >= 3, "labels": ["private" if private else "public", "steps=%d" % min(steps, 6)]}


# ---- unit 3: equivalence laws ----------------------------------------------------------------------------------

def check_equivalence(case):
    s1, s2 = case["s1"], case["s2"]
    k1a, k1b, k2 = C.PrivateKey.from_bytes(s1), C.PrivateKey.from_hex(s1.hex()), C.PrivateKey.from_bytes(s2)
    p1a, p1b, p2 = k1a.public_key(), C.PublicKey.from_hex(R4.public_key(s1).hex()), C.PublicKey.from_bytes(R4.public_key(s2))
    E, F = C.PrivateKey.is_equivalent_to, C.PublicKey.is_equivalent_to
    same = s1 == s2
    checks = [
        ("private reflexive", E(k1a, k1a), True), ("private same seed", E(k1a, k1b), True),
        ("private symmetric", E(k1b, k1a), E(k1a, k1b)), ("private different", E(k1a, k2), same),
        ("private different (swapped)", E(k2, k1a), same),
        ("public reflexive", F(p1a, p1a), True), ("public same key", F(p1a, p1b), True),
        ("public symmetric", F(p1b, p1a), F(p1a, p1b)), ("public different", F(p1a, p2), same),
        ("public different (swapped)", F(p2, p1b), same),
        ("private vs public", E(k1a, p1a), False), ("public vs private", F(p1a, k1a), False),
    ]
    # neighbours: keys whose raw bytes differ in exactly one bit
    i = case.get("bit", 0) % 256
    nb = bytearray(s1)
    nb[i // 8] ^= 1 << (i % 8)
    kn = C.PrivateKey.from_bytes(bytes(nb))
    pb = bytearray(R4.public_key(s1))
    pb[i // 8] ^= 1 << (i % 8)
    pn = C.PublicKey.from_bytes(bytes(pb))
    checks += [("private one-bit neighbour", E(k1a, kn), False), ("private one-bit neighbour (swapped)", E(kn, k1a), False),
               ("public one-bit neighbour", F(p1a, pn), False), ("public one-bit neighbour (swapped)", F(pn, p1b), False)]
    for name, got, want in checks:
        if got is not want:
            raise Violation("is_equivalent_to law broken: %s gave %r, expected %r" % (name, got, want),
                            bucket="equivalence " + name)
    return {"nontrivial": not same, "labels": ["same-seed" if same else "different-seeds"]}


# ---- unit 4: key files ------------------------------------------------------------------------------------------

KEYFILE_NAMES = ["k", "k", "signer.2024", "a.b.c", "name.pri", "key.pub", ".hidden", "k.", "with space", "caf\u00e9.v2", "UPPER.TXT"]


def check_keyfiles(case):
    d = tempfile.mkdtemp(prefix="c19-")
    try:
        base = KEYFILE_NAMES[case.get("name", 0) % len(KEYFILE_NAMES)]
        if case["how"] == "library":
            name = os.path.join(d, base)
            # a neighbour whose name differs only after the last dot (signer.2024 / signer.2025, k.old / k.new) exists already
            sib = None
            if "." in base.strip("."):
                sib = os.path.join(d, base.rsplit(".", 1)[0] + ".other")
                sib_priv, sib_pub = MC.gen_and_write_keys(sib)
            pre = case.get("pre", 0) % 4
            if pre:       # key files from an earlier run already exist under that name (longer, shorter or same size)
                for ext, n in ((".pri", [0, 65, 20, 32][pre]), (".pub", [0, 33, 64, 32][pre])):
                    with open(name + ext, "wb") as f:
                        f.write(b"o" * n)
            priv, pub = MC.gen_and_write_keys(name)
            seed = C.PrivateKey.to_bytes(priv)
            if C.PublicKey.to_bytes(pub) != R4.public_key(seed):
                raise Violation("gen_and_write_keys returned a public key that is not the RFC 8032 public key of the "
                                "private key", bucket="generated pair inconsistent")
        elif case["how"] == "gen_keys":
            priv, pub = MC.gen_keys()
            seed = C.PrivateKey.to_bytes(priv)
            if len(seed) != 32 or C.PublicKey.to_bytes(pub) != R4.public_key(seed):
                raise Violation("gen_keys returned an inconsistent pair", bucket="generated pair inconsistent")
            C.checkformat_key(priv)
            C.checkformat_key(pub)
            return {"nontrivial": True, "labels": ["gen_keys"]}
        else:
            sib = None
            seed = case["seed"]
            name = os.path.join(d, base)
            with open(name + ".pri", "wb") as f:
                f.write(seed)
            with open(name + ".pub", "wb") as f:
                f.write(R4.public_key(seed))
        if not (os.path.isfile(name + ".pri") and os.path.isfile(name + ".pub")):
            raise Violation("key pair %r: no files %r / %r after writing; the directory holds %r"
                            % (base, base + ".pri", base + ".pub", sorted(os.listdir(d))), bucket="key file names")
        if open(name + ".pri", "rb").read() != seed or open(name + ".pub", "rb").read() != R4.public_key(seed):
            raise Violation("key files do not hold the raw 32-byte private / RFC 8032 public key", bucket="key file content")
        pb, ub = _lib(C.keyfiles_to_bytes, name)
        if (pb, ub) != (seed, R4.public_key(seed)):
            raise Violation("keyfiles_to_bytes does not return the file contents", bucket="keyfiles_to_bytes")
        lp, lu = _lib(C.keyfiles_to_keys, name)
        if not C.PrivateKey.is_equivalent_to(lp, C.PrivateKey.from_bytes(seed)) or \
                not C.PublicKey.is_equivalent_to(lu, C.PublicKey.from_bytes(R4.public_key(seed))) or \
                C.PrivateKey.to_bytes(lp) != seed or C.PublicKey.to_bytes(lu) != R4.public_key(seed):
            raise Violation("keys loaded from key files are not equivalent to the keys written", bucket="keyfile round trip")
        if lp.sign(b"x") != R4.sign(seed, b"x"):
            raise Violation("key loaded from file signs differently", bucket="keyfile round trip")
        if sib is not None:
            sp, su = _lib(C.keyfiles_to_keys, sib)
            if C.PrivateKey.to_bytes(sp) != C.PrivateKey.to_bytes(sib_priv) or C.PublicKey.to_bytes(su) != C.PublicKey.to_bytes(sib_pub):
                raise Violation("writing the key pair %r changed what loads back for the key pair %r written before"
                                % (base, os.path.basename(sib)), bucket="keyfile round trip")
        want_files = {base + ".pri", base + ".pub"} | ({os.path.basename(sib) + ".pri", os.path.basename(sib) + ".pub"} if sib else set())
        if set(os.listdir(d)) != want_files:
            raise Violation("key files for %r: the directory holds %r, expected %r" % (base, sorted(os.listdir(d)), sorted(want_files)),
                            bucket="key file names")
    finally:
        shutil.rmtree(d, ignore_errors=True)
    return {"nontrivial": True, "labels": [case["how"]]}


# ---- unit 5: malformed encodings -----------------------------------------------------------------------------------

SPECIAL_CHARS = " \t\n\r\x0b\x0c\x00\x7f\x85\xa0\u2003\u200b\ufeffxXgGzZ-_+.:\uff10\uff19\uff41\uff26\u0660\u0669\u0966\u00b2\u2167\u0301\U0001d7ce"


def _edit_hex(draw, hx):
    kind = draw(st.sampled_from(["upper", "one-upper", "short", "long", "odd", "space", "nl", "0x", "fullwidth", "g", "nbsp",
                                 "nl-last", "sub-special", "sub-special", "pair-special"]))
    i = draw(st.integers(0, len(hx) - 1))
    if kind == "upper":
        r = hx.upper()
    elif kind == "one-upper":
        r = hx[:i] + hx[i].upper() + hx[i + 1:]
    elif kind == "short":
        r = hx[:-2]
    elif kind == "long":
        r = hx + "00"
    elif kind == "odd":
        r = hx[:-1]
    elif kind == "space":
        r = hx[:i] + " " + hx[i:]
    elif kind == "nl":
        r = hx + "\n"
    elif kind == "0x":
        r = "0x" + hx
    elif kind == "fullwidth":
        r = hx[:i] + chr(0xFF10 + int(hx[i], 16) % 10) + hx[i + 1:]
    elif kind == "g":
        r = hx[:i] + "g" + hx[i + 1:]
    elif kind == "nl-last":
        r = hx[:-1] + draw(st.sampled_from(["\n", "\r", " ", "\x00"]))
    elif kind == "sub-special":
        r = hx[:i] + draw(st.sampled_from(SPECIAL_CHARS)) + hx[i + 1:]
    elif kind == "pair-special":
        j = 2 * (i // 2)
        ch = draw(st.sampled_from(SPECIAL_CHARS))
        r = hx[:j] + ch + ch + hx[j + 2:]
    else:
        r = hx + "\u00a0"
    return kind, r


@st.composite
def _malformed(draw):
    seed = draw(seeds)
    which = draw(st.sampled_from(["hex-edit", "hex-edit", "bytes-len", "bytes-len", "pyvalue-hex", "pyvalue-bytes"]))
    private = draw(st.booleans())
    good = seed if private else R4.public_key(seed)
    if which == "hex-edit":
        kind, v = _edit_hex(draw, good.hex())
        return {"private": private, "via": "hex", "value": v, "kind": kind}
    if which == "bytes-len":
        n = draw(st.sampled_from([0, 1, 31, 33, 64, 16]))
        v = (good * 3)[:n]
        return {"private": private, "via": "bytes", "value": v, "kind": "len=%d" % n}
    v = draw(GP.python_values)
    return {"private": private, "via": "hex" if which == "pyvalue-hex" else "bytes", "value": v, "kind": "pyvalue"}


_REPO = {"info": {}, "packages": {"a-1.0-0.tar.bz2": {"name": "a", "version": "1.0", "depends": []}}, "packages.conda": {}}


def _offer_to_signer(v, case):
    """The consumer of private-key hex strings: sign_all_in_repodata.  The malformed string is offered three times in a row,
    after a run with a valid key in two of three cases: every offer must be refused, and the file must stay as it is."""
    import shutil
    import tempfile
    from conda_content_trust import signing as S
    d = tempfile.mkdtemp(prefix="c19m-")
    try:
        fn = os.path.join(d, "repodata.json")
        with open(fn, "wb") as fobj:
            fobj.write(canon(_REPO))
        if len(v) % 3:
            S.sign_all_in_repodata(fn, keys.POOL[len(v) % 5].hex())
        data = open(fn, "rb").read()
        for i in range(3):
            try:
                S.sign_all_in_repodata(fn, v)
            except (TypeError, ValueError):
                if open(fn, "rb").read() != data:
                    raise Violation("sign_all_in_repodata refused the malformed key %r but changed the file" % (v,),
                                    bucket="malformed encoding: file changed")
                continue
            except Exception as e:
                raise Violation("sign_all_in_repodata with the malformed private key %r (%s), offer %d: raised %s instead of TypeError/ValueError"
                                % (v, case["kind"], i + 1, type(e).__name__), bucket="malformed encoding: wrong error " + type(e).__name__)
            raise Violation("sign_all_in_repodata accepted the malformed private key %r (%s) when it was offered the %s time"
                            % (v, case["kind"], ["first", "second", "third"][i]), bucket="malformed encoding accepted")
    finally:
        shutil.rmtree(d, ignore_errors=True)


def check_malformed(case):
    cls = C.PrivateKey if case["private"] else C.PublicKey
    v = GP.realize(case["value"])
    if isinstance(v, str) and type(v) is not str or isinstance(v, bytes) and type(v) is not bytes:
        return {"nontrivial": False, "labels": ["gray-subclass"], "gray": True}     # str / bytes subclasses: not asserted
    if case["via"] == "hex":
        if g.is_key(v):
            return {"nontrivial": False, "labels": ["valid-by-chance"]}
        f = cls.from_hex
        # the key-encoding validator itself must reject it too (not only the conversion that follows it)
        try:
            ok = C.is_hex_key(v)
        except Exception as e:
            raise Violation("is_hex_key(%r) raised %s" % (v, type(e).__name__), bucket="malformed encoding: validator raises")
        if ok and not (isinstance(v, str) and type(v) is not str):
            raise Violation("is_hex_key accepts the malformed key encoding %r (%s)" % (v, case["kind"]),
                            bucket="malformed encoding accepted")
    else:
        if type(v) is bytes and len(v) == 32:
            return {"nontrivial": False, "labels": ["valid-by-chance"]}
        if type(v) is bytearray and len(v) == 32:
            return {"nontrivial": False, "labels": ["gray-bytearray"], "gray": True}
        f = cls.from_bytes
    try:
        r = f(v)
    except (TypeError, ValueError):
        if case["via"] == "hex" and case["private"] and type(v) is str:
            _offer_to_signer(v, case)
        return {"nontrivial": case["kind"] != "pyvalue", "labels": ["via=" + case["via"], "kind=" + case["kind"]]}
    except Exception as e:
        raise Violation("%s(%r) raised %s instead of TypeError/ValueError" % (f.__qualname__, v, type(e).__name__),
                        bucket="malformed encoding: wrong error " + type(e).__name__)
    raise Violation("%s accepted the malformed encoding %r (%s) and returned %r" % (f.__qualname__, v, case["kind"], r),
                    bucket="malformed encoding accepted")


def enum_big_repodata(tier):
    for n1, n2 in ([(16391, 16389)] if tier == "quick" else [(16391, 16389), (40001, 3), (70001, 33001)]):
        yield {"synthetic": n1, "synthetic_conda": n2, "seed": keys.POOL[7].hex()}


def check_big_repodata(case):
    """the hex under which signatures are filed and the signatures themselves == RFC 8032, for EVERY artifact of a big channel
    index (batched / chunked signing is where entries get filed under a neighbour's name)"""
    from props import C11
    return C11._check_big(case)


UNITS = [
    Unit("big_repodata", check_big_repodata, enumerate=enum_big_repodata, exhaustive=True, shards_quick=1, shards_thorough=3,
         doc="sign_all_in_repodata over 16 391 + 16 389 artifacts (thorough: up to 103 002): every entry == RFC 8032 under the right name and key"),
    Unit("derive_sign", check_derive_sign, strategy=lambda: st.fixed_dictionaries(
        {"seed": seeds, "msg": messages, "flip": st.integers(0, 511)}), quick=600, thorough=40000, shards_quick=8,
        essential=["special-seed", "random-seed"],
        doc="public key, signature, sign_signable filing == pure-Python RFC 8032; oracle primitives cross-checked"),
    Unit("conversions", check_conversions, strategy=lambda: st.fixed_dictionaries(
        {"seed": seeds, "private": st.booleans(), "ops": st.lists(st.integers(0, 5), min_size=1, max_size=12)}),
        quick=1500, thorough=40000, doc="any conversion sequence returns the starting value"),
    Unit("equivalence", check_equivalence, strategy=lambda: st.fixed_dictionaries(
        {"s1": seeds, "s2": st.one_of(seeds, st.sampled_from(SPECIAL_SEEDS)), "bit": st.integers(0, 255)}), quick=600, thorough=20000,
        essential=["same-seed", "different-seeds"], doc="reflexive, symmetric, false across seeds and across kinds"),
    Unit("keyfiles", check_keyfiles, strategy=lambda: st.fixed_dictionaries(
        {"how": st.sampled_from(["library", "library", "hand", "gen_keys"]), "seed": seeds, "pre": st.integers(0, 3), "name": st.integers(0, 10)}), quick=300, thorough=5000,
        doc="key files written by the library / by hand load back as equivalent keys"),
    Unit("malformed", check_malformed, strategy=_malformed, quick=1500, thorough=40000,
         doc="malformed key encodings are rejected with TypeError/ValueError by from_bytes/from_hex"),
    _cfgunit.unit_under_config(PROPERTY, 'derive_sign', exclude=()),
    _cfgunit.unit_under_config(PROPERTY, 'malformed', exclude=(), n_cases=40),
    _cfgunit.unit_under_config(PROPERTY, 'conversions', exclude=(), closed_stdout=True, n_cases=30),
    _interfere.unit_after(PROPERTY, 'malformed', quick=150, thorough=6000),
    _interfere.unit_after(PROPERTY, 'conversions', quick=150, thorough=6000),
    _interrupt.unit_interrupted(PROPERTY, 'conversions', quick=18, thorough=450, max_points=150),
    _interrupt.unit_interrupted(PROPERTY, 'malformed', quick=18, thorough=450, max_points=150),
    _interrupt.unit_interrupted(PROPERTY, 'derive_sign', quick=18, thorough=450, max_points=150),
    _editor.unit(),
]
