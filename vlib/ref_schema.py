"""R6: the documented schema of delegating metadata (the C14 statement, literally), three-valued.

schema(x) -> (verdict, reasons) with verdict in {"yes", "no", "gray"}:
  "no"   some rule is definitely violated (the checker must reject),
  "gray" no rule is definitely violated, but some field sits in a zone the property text does not
         determine (DESIGN.md section 6) -- neither verdict of the checker is an alarm,
  "yes"  every rule definitely holds (the checker must accept).
reasons: list of (rule-id, verdict) for every rule that is not "yes".
"""
from . import ref_grammar as g
from .ref_grammar import GRAY, NO, YES

SUPPORTED_TYPES = ("root", "key_mgr")

RULES = ["envelope", "sig-entries", "signed-object", "required-fields", "type", "spec-version",
         "delegations-object", "delegation-fields", "pubkeys", "pubkeys-distinct", "threshold",
         "expiration", "version-or-timestamp", "root-version", "version", "timestamp"]


def is_envelope(x):
    """two-field signed envelope: exactly {signatures, signed}, signatures an object, signed a JSON value"""
    return (type(x) is dict and set(x) == {"signatures", "signed"} and type(x["signatures"]) is dict
            and type(x["signed"]) in (dict, list, str, int, float, bool, type(None)))


def delegation(dl, out):
    if type(dl) is not dict or set(dl) != {"pubkeys", "threshold"}:
        out.append(("delegation-fields", NO))
        return
    pk = dl["pubkeys"]
    if type(pk) is not list or not all(g.is_key(k) for k in pk):
        out.append(("pubkeys", NO))
    elif len(set(pk)) != len(pk):
        out.append(("pubkeys-distinct", NO))
    t = g.natural_int(dl["threshold"])
    if t != YES:
        out.append(("threshold", t))


def schema(x):
    out = []
    if not is_envelope(x):
        return NO, [("envelope", NO)]
    for v in x["signatures"].values():
        if not g.is_any_entry(v):
            out.append(("sig-entries", NO))
            break
    s = x["signed"]
    if type(s) is not dict:
        out.append(("signed-object", NO))
        return NO, out
    for f in ("type", "metadata_spec_version", "delegations", "expiration"):
        if f not in s:
            out.append(("required-fields", NO))
    if "type" in s and not (type(s["type"]) is str and s["type"] in SUPPORTED_TYPES):
        out.append(("type", NO))
    if "metadata_spec_version" in s and type(s["metadata_spec_version"]) is not str:
        out.append(("spec-version", NO))
    if "delegations" in s:
        d = s["delegations"]
        if type(d) is not dict:
            out.append(("delegations-object", NO))
        else:
            for role, dl in d.items():
                delegation(dl, out)
    if "expiration" in s:
        e = g.utc_time(s["expiration"])
        if e != YES:
            out.append(("expiration", e))
    if "version" not in s and "timestamp" not in s:
        out.append(("version-or-timestamp", NO))
    if s.get("type") == "root" and "version" not in s:
        out.append(("root-version", NO))
    if "version" in s:
        v = g.natural_int(s["version"])
        if v != YES:
            out.append(("version", v))
    if "timestamp" in s:
        t = g.utc_time(s["timestamp"])
        if t != YES:
            out.append(("timestamp", t))
    if any(v == NO for _, v in out):
        return NO, out
    if out:
        return GRAY, out
    return YES, out


def signed_is_delegating(signed):
    """R6 applied to the signed portion alone (wrapped with an empty signature map)."""
    return schema({"signatures": {}, "signed": signed})[0]
