"""Line-event fault injector and file/signing observer (sys.settrace / sys.setprofile / builtins.open wrapper).

run(fn, pkg_dir, target, fault_at=None) executes fn() and returns a Trace:
  .outcome      "return" | exception class name
  .exc          the exception (or None)
  .events       number of 'line' events executed in frames whose code lives under pkg_dir (before the
                injected fault, if any)
  .log          list of (event_index, kind, detail): "open-w" / "close-w" (target opened for writing / closed),
                "replace" (os.replace/rename onto the target), "sign" (an Ed25519 private-key signing operation, seen
                as a C call through sys.setprofile however the signing code is written), "call-in-window" (a Python
                call into repository / json code while the target is open for writing)
  .lines        for each event index the (file, function, line) executed  (fault-free runs only)

granularity="ccall" counts the C-level calls made by repository code (sys.setprofile 'c_call' events: the dependency's
verify(), hash update(), bytes.fromhex(), print() ...) and raises the fault at the k-th of them - the exception surfaces at
the call site exactly as if the dependency had failed (MemoryError in OpenSSL, EPIPE in print, ...).

granularity="opcode" counts and injects at every bytecode instruction instead of every source line (about ten times as
many fault points: also between the evaluation of an argument and the call it feeds, inside expressions, ...).

fault_at=k raises InjectedFault just before the k-th line event executes (the exception propagates into the traced
frame exactly like an error raised by that line; tracing is switched off afterwards)."""
import builtins
import io
import os
import sys


class InjectedFault(Exception):
    injected = True


# Exception classes an injected fault can take besides the plain InjectedFault(Exception): the classes real faults have (a dead
# pipe or full disk under print(), Ctrl-C, allocation failure, a failing dependency).  ValueError / TypeError are left out on
# purpose: they are the validators' own vocabulary for "no" (the library catches them around format checks by design), so an
# injected one is indistinguishable from a legitimate rejection.
FAULT_CLASSES = [None, KeyError, OSError, KeyboardInterrupt, MemoryError, AttributeError, RuntimeError, BrokenPipeError, LookupError]
_made = {}


def fault_class(base):
    """InjectedFault that is also an instance of `base` (caught by `except base`, by contextlib.suppress(base), ...)."""
    if base is None:
        return InjectedFault
    if base not in _made:
        # a BaseException-only class (KeyboardInterrupt) must stay outside Exception, as the real thing is
        bases = (InjectedFault, base) if issubclass(base, Exception) else (base,)
        _made[base] = type("Injected" + base.__name__, bases, {"injected": True})
    return _made[base]


def rotating(offset):
    """fault class for the k-th fault of a sweep: every class comes round at every len(FAULT_CLASSES)-th position"""
    return lambda k: FAULT_CLASSES[(k + offset) % len(FAULT_CLASSES)]


class Trace:
    def __init__(self):
        self.outcome = None
        self.exc = None
        self.events = 0
        self.log = []
        self.lines = []
        self.fired = False


class _Proxy:
    """File object proxy that reports when the target is closed."""

    def __init__(self, f, on_close):
        self._f = f
        self._on_close = on_close

    def __getattr__(self, name):
        return getattr(self._f, name)

    def __enter__(self):
        self._f.__enter__()
        return self

    def __exit__(self, *a):
        try:
            return self._f.__exit__(*a)
        finally:
            self._on_close()

    def close(self):
        try:
            return self._f.close()
        finally:
            self._on_close()

    def __iter__(self):
        return iter(self._f)


def run(fn, pkg_dir, target, fault_at=None, keep_lines=False, granularity="line", fault_base=None):
    Fault = fault_class(fault_base)
    pkg_dir = os.path.realpath(pkg_dir) + os.sep
    target_real = os.path.realpath(target)
    tr = Trace()
    state = {"open": 0, "n": 0, "armed": True}
    json_dir = os.path.dirname(os.path.realpath(__import__("json").__file__)) + os.sep
    cache = {}

    def in_pkg(code):
        r = cache.get(code.co_filename)
        if r is None:
            rp = os.path.realpath(code.co_filename)
            r = 1 if rp.startswith(pkg_dir) else 2 if rp.startswith(json_dir) else 0
            cache[code.co_filename] = r
        return r

    def local(frame, event, arg):
        if granularity == "opcode":
            frame.f_trace_opcodes = True
        if event == granularity and state["armed"] and granularity != "ccall":
            state["n"] += 1
            tr.events = state["n"]
            if keep_lines:
                tr.lines.append((os.path.basename(frame.f_code.co_filename), frame.f_code.co_name, frame.f_lineno))
            if fault_at is not None and state["n"] == fault_at:
                state["armed"] = False
                raise Fault("injected at line event %d (%s:%s:%d)" % (
                    fault_at, os.path.basename(frame.f_code.co_filename), frame.f_code.co_name, frame.f_lineno))
        return local

    def tracer(frame, event, arg):
        if event == "call":
            kind = in_pkg(frame.f_code)
            if state["open"] and kind:
                tr.log.append((state["n"], "call-in-window", "%s:%s" % (os.path.basename(frame.f_code.co_filename), frame.f_code.co_name)))
            if kind == 1:
                if granularity == "opcode":
                    frame.f_trace_opcodes = True
                    frame.f_trace = local      # (3.12: opcode events need the local tracer installed explicitly)
                return local
        return None

    ALLOWED_IN_WINDOW = {"write", "close", "__exit__", "__enter__", "flush", "getattr", "isinstance", "len", "fileno", "append",
                         "_getframe", "realpath", "fspath", "startswith", "get", "basename", "join", "extract_tb"}

    cstate = {"n": 0}

    def profiler(frame, event, arg):
        if event == "c_call":
            name = getattr(arg, "__name__", "")
            if granularity == "ccall" and state["armed"] and in_pkg(frame.f_code) == 1:
                # a C-level call made by repository code (a dependency: OpenSSL verify, sha256 update, fromhex, print ...)
                cstate["n"] += 1
                tr.events = cstate["n"]
                if keep_lines:
                    tr.lines.append((os.path.basename(frame.f_code.co_filename), frame.f_code.co_name, name))
                if fault_at is not None and cstate["n"] == fault_at:
                    state["armed"] = False
                    raise Fault("injected in place of / at the C call %s() made from %s:%s" % (
                        name, os.path.basename(frame.f_code.co_filename), frame.f_code.co_name))
            if state["open"] and name not in ALLOWED_IN_WINDOW and os.path.realpath(frame.f_code.co_filename).startswith(pkg_dir):
                tr.log.append((state["n"], "call-in-window", "builtin " + name))
            if name == "sign":
                owner = type(getattr(arg, "__self__", None)).__name__
                if "PrivateKey" in owner:
                    tr.log.append((state["n"], "sign", owner))

    real_open, real_io_open, real_replace, real_rename = builtins.open, io.open, os.replace, os.rename

    def is_target(path):
        try:
            return os.path.realpath(os.fspath(path)) == target_real
        except TypeError:
            return False

    def my_open(file, mode="r", *a, **kw):
        f = real_open(file, mode, *a, **kw)
        if is_target(file) and any(c in mode for c in "wax+"):
            state["open"] += 1
            tr.log.append((state["n"], "open-w", mode))

            def closed():
                state["open"] -= 1
                tr.log.append((state["n"], "close-w", ""))
            return _Proxy(f, closed)
        return f

    def my_replace(src, dst, *a, **kw):
        if is_target(dst):
            tr.log.append((state["n"], "replace", os.path.basename(os.fspath(src))))
        return real_replace(src, dst, *a, **kw)

    def my_rename(src, dst, *a, **kw):
        if is_target(dst):
            tr.log.append((state["n"], "replace", os.path.basename(os.fspath(src))))
        return real_rename(src, dst, *a, **kw)

    builtins.open, io.open, os.replace, os.rename = my_open, my_open, my_replace, my_rename
    old_trace, old_prof = sys.gettrace(), sys.getprofile()
    if granularity != "opcode":       # CPython 3.12 delivers no opcode events while a profile function is installed
        sys.setprofile(profiler)
    sys.settrace(tracer)
    try:
        fn()
        tr.outcome = "return"
    except SystemExit as e:
        tr.outcome = "SystemExit(%s)" % (e.code,)
        tr.exc = e
    except BaseException as e:      # noqa: BLE001 - the outcome is the observation
        tr.outcome = "InjectedFault" if getattr(e, "injected", False) else type(e).__name__
        tr.exc = e
    finally:
        tr.fired = not state["armed"]        # the fault was raised (outcome "return" with fired: the code swallowed it)
        sys.settrace(old_trace)
        sys.setprofile(old_prof)
        builtins.open, io.open, os.replace, os.rename = real_open, real_io_open, real_replace, real_rename
    return tr
