#!/bin/bash
# tools/quiet.sh [seeds...]  - quiet-tree protocol: every quick check at several seeds, fresh processes; prints non-zero exits
cd "$(dirname "$0")/.."
SEEDS=${@:-"1 2 3 4 5"}
T=$(mktemp -d /tmp/quiet.XXXX)
for s in $SEEDS; do
  for p in C01 C02 C03 C04 C05 C06 C07 C08 C09 C10 C11 C12 C13 C14 C15 C16 C17 C18 C19; do
    start=$(date +%s)
    VERIF_SEED=$s VERIF_OUT_DIR=$T ./vcheck $p > $T/$p.$s.log 2>&1; rc=$?
    end=$(date +%s)
    if [ $rc -ne 0 ]; then echo "seed=$s $p rc=$rc $(grep -m2 'violation:\|INCONCLUSIVE\|HARNESS' $T/$p.$s.log | cut -c1-300)"; cp $T/$p.$s.log /tmp/quiet-fail-$p-$s.log; fi
    echo "$s $p $rc $((end-start))s" >> $T/summary.txt
  done
done
awk '{t[$2]+=$4; n[$2]++} END {for (p in t) printf "%s avg %.1fs\n", p, t[p]/n[p]}' $T/summary.txt | sort
grep -c " 0 " $T/summary.txt
rm -rf $T
